#!/bin/bash
# refresh every evidence file on the current tree (quick tier, default seed), regenerate and validate MANIFEST + evidence
cd /verif
[ -n "$(git -C /repo status --porcelain)" ] && { echo "/repo not clean"; exit 2; }
for c in C01 C02 C03 C04 C05 C06 C07 C08 C09 C10 C11 C12 C13 C14 C15 C16 C17 C18 C19; do
  ./check $c quick 2>&1 | grep -E "^OK|^VIOLATION|ENGINE|INCONCLUSIVE|BUILD" | cut -c1-200
done
python3 gen_manifest.py
python3-vt - <<'PY'
import json, jsonschema, glob
m = json.load(open('/verif/MANIFEST.json'))
jsonschema.validate(m, json.load(open('/root/.vp/MANIFEST.schema.json')))
es = json.load(open('/root/.vp/EVIDENCE.schema.json'))
n = 0
for f in sorted(glob.glob('/verif/evidence/C*.json')):
    jsonschema.validate(json.load(open(f)), es); n += 1
print("manifest ok; evidence files valid:", n)
PY
