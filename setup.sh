#!/bin/bash
# MANIFEST.setup_cmd: offline build of the harness (and, if present, the fuzz targets).
set -eu
cd "$(dirname "$0")"
export CARGO_NET_OFFLINE=true
unset RUSTFLAGS || true
( cd harness && cargo build --release --offline )
if [ -d fuzz ] && [ -f fuzz/Cargo.toml ]; then
  ( cd fuzz && ./build.sh ) || echo "WARNING: fuzz targets failed to build (thorough tiers of C10/C11 will skip fuzzing)"
fi
echo "setup ok"
