#!/bin/bash
# ./benign.sh <dir-with-diffs>   apply each behaviour-preserving variant to /repo, run every quick check, report any
# check that is not silent (a false alarm of the machinery), revert. Not a registered check.
cd /verif
dir=$(cd "$1" && pwd)
for d in "$dir"/*.diff; do
  n=$(basename $d .diff)
  [ -n "$(git -C /repo status --porcelain)" ] && { echo "/repo not clean"; exit 2; }
  git -C /repo apply $d || { echo "## $n: patch does not apply"; continue; }
  bad=""
  for c in C01 C02 C03 C04 C05 C06 C07 C08 C09 C10 C11 C12 C13 C14 C15 C16 C17 C18 C19; do
    out=$(VERIF_MAX_SHRINK=60 ./check $c quick 2>&1); rc=$?
    if [ $rc -ne 0 ]; then bad="$bad $c"; echo "## $n: $c rc=$rc"; echo "$out" | grep -v "^KNOWN" | tail -4 | cut -c1-380; fi
  done
  git -C /repo checkout -- .
  echo "## $n done:${bad:- all silent}"
done
