#!/usr/bin/env python3
"""Regenerates MANIFEST.json from the table below (kept next to the code so that the manifest
always matches what ./check implements)."""
import json, subprocess

HOOK_COMMITS = ["4609c65", "122e4dd", "d3b77f7"]

CHECKS = {
 "C03": dict(engine="E2E", cat="fault_enumeration",
   technique="proptest-generated transfer scenarios with a fault (network cut / cancellation) placed on the fault-free wire log of the same scenario; thorough tier enumerates every cut position of 200 base scenarios",
   text="Generated transfers with flush/shutdown points and a network cut at a generated (quick) or every (thorough, fault enumeration) emission index, or a cancellation at a generated instant; readers read until end or error. Every Ok flush/shutdown must be backed by the peer application obtaining those bytes, clean EOF never with fewer bytes than a successful shutdown covered, operations resolve within inactivity + 75 s after an abort with data outstanding (1 s after cancel).",
   note="quick tier samples cut positions (plus full enumeration of 6 scenarios); F8-type hangs at a closed window are counted as known finding F8-C03", ref="§5 C03"),
 "C08": dict(engine="E2E", cat="exploration",
   technique="proptest-generated open/close cycles against the connection limit over a lossy simulated network, with stale-datagram replay and socket cancellation; oracle on slot reuse, end-of-task events, silence and alive-task count",
   text="Cycles of `limit` (1..4) connections on one socket pair with max_live_vsocks = limit; every side writes a little and lets go in a generated way (drop both, shutdown then drop, reader first, wait for EOF with application patience, writer first); closing datagrams dropped/delayed/duplicated freely, dont_wait_for_lastack either way, old datagrams replayed after the end and, in 35 % of the cases, chatter while closing (10..250 replays of recent datagrams 100..950 ms apart, some aimed at one socket), cancellation token fired at a generated instant in 20 % of the cases. Every later cycle must be established (slots released), each connection task ends within T_end = 82 s of both halves being dropped, nothing carrying its id is emitted afterwards, at the end only dispatchers are alive; after cancel nothing is emitted, tasks are dropped promptly and no write succeeds.",
   note="end-of-task instants come from the cfg-guarded observer hook; T_end = inactivity (10 s) + 70 s back-off allowance + 2 s; RESET replies are not counted as emissions for the connection", ref="§5 C08"),
 "C12": dict(engine="MC", cat="exploration",
   technique="proptest-generated concurrent connect/accept workloads on 2..4 simulated sockets with a token protocol and keyed payloads; isolation/limit/id-uniqueness oracle over application results, wire log and end-of-task events",
   text="2..4 sockets with limits 1..64, up to 14/24 connect calls in both directions and several to one peer at clustered instants, colliding initial sequence numbers and adjacent initial connection ids, loss-free or fair-lossy network. Every stream yields only its own connection's bytes (token, both keyed payloads, nothing extra), no token twice, established-and-not-ended connections never exceed the limit, endpoints live at one socket towards one address never share a receive id, connect calls end Ok / TooManyActiveConnections / abandoned; loss-free: identified connections complete whatever else happens and certainly admissible attempts succeed.",
   note="known finding F7 (probe re-cut) is excluded by the same counted network guard as in C01; opposite-direction calls with equal or adjacent SYN ids may wait (exempt from the 'admissible' clause)", ref="§5 C12"),
 "C13": dict(engine="MC", cat="exploration",
   technique="proptest-generated connect/accept/abandon/duplicate-SYN schedules at distinct virtual instants; reference model of the request and acceptor queues (differential oracle) plus token pairing",
   text="Loss-free runs in three classes: fifo (connect calls from 1..3 clients, accept calls before/after the requests, 30 % abandoned, duplicate SYNs, listener limit 64 or 2..6), backlog (up to 12 real + 76 raw SYNs against 0..46 accept calls), abandon (connect calls abandoned with the SYN lost or queued, accept calls abandoned before any request, then 1..4 connects that must succeed). A reference model of the two FIFO queues predicts which request every accept call receives and which requests are answered by a RESET at their arrival instant; every Ok connect has exactly one accepted stream delivering its token and both streams carry each other's bytes to completion.",
   note="events whose order matters never share an instant (SYNs even ms, accept calls/abandonment odd ms); duplicates arrive while the original is queued or alive", ref="§5 C13"),
 "C14": dict(engine="E2E", cat="exploration",
   technique="proptest-generated link/path MTU configurations with blackhole or EMSGSIZE and fair loss; wire-log oracle on datagram sizes, probe discipline and convergence",
   text="Generated link MTUs, true path MTUs, address families, probe retransmission limits and loss of non-probe datagrams, bulk writers and trickle writers (20..120 pieces around the segment sizes with pauses, so that buffered data often lies between the proven and the probed size); every datagram fits the emitter's link MTU, first transmissions above the proven size are single newest probes, data stays intact, the transfer completes; for bulk writers the steady size equals the largest fitting payload within 2*ceil(log2(range))+3 probes.",
   note="probes are exempt from random loss; asymmetric path MTUs hit known finding F21, delivered-probe/lost-ack hits F7", ref="§5 C14"),

 "C02": dict(engine="E2E", cat="exploration",
   technique="proptest-generated end-to-end transfers over a fair-lossy simulated network with a virtual-time deadline oracle; loss-free runs with same-instant promptness oracles",
   text="(a) Generated bidirectional transfers under a fair-lossy fault plan (per-identity drop budget k in {1,2}, bounded delay/duplication, handshake protected; 30 % with a symmetric path-MTU black hole that swallows every size probe above it together with its retransmissions): by a virtual deadline derived from the plan everything written is read, flush/shutdown resolved, nothing failed; a miss is re-run with 4x the deadline before being reported. (b) Loss-free fixed-latency runs: silent interval with undelivered bytes <= 2L+40 ms, write/shutdown on an idle connection act at the same virtual instant, no retransmission for L<=60 ms.",
   note="'eventually' = before a generous virtual deadline; inactivity limit raised to 1 h in (a) (back-off ratchet vs. 10 s default noted as an observation); known findings F8 and F7 excluded by counted guards, exercised by witnesses", ref="§5 C02"),

 "C17": dict(engine="SP", cat="exploration",
   technique="bounded-exhaustive enumeration of event sequences over a 25-event alphabet from 8 start states x 2 link settings x both handshake directions plus proptest-generated longer sequences; state-graph observer oracle on the wire log",
   text="All sequences of peer packets / application actions / clock advances up to depth 3 (quick, 0.52M sequences) or 4 (thorough, 13M) from every handshake/teardown state (incl. FinWait2 reached through a data packet that acknowledges the FIN), with and without size probing (link MTU 1500 / 576) and both handshake directions, plus generated sequences up to 20 events; an observer of docs/states.dot checks SYN-ACK form/interval/count, own FIN numbering/ordering/back-off/dueness, peer FIN honoured only in sequence and acked/answered at the same instant, RESET silence and prompt failure, silence after the end.",
   note="the exact end of the connection task comes from the cfg-guarded observer hook; hostile 'future' acks (acknowledging unsent data) exempt the data-before-FIN clauses; FIN retransmissions that ride along with an outstanding size probe are exempt from doubling (timeouts attributed to a probe do not back off by design)", ref="§5 C17"),

 "C05": dict(engine="SP", cat="exploration",
   technique="proptest-generated ACK/window schedules from a scripted peer; sender reference observer evaluated at every first transmission",
   text="Generated write patterns against generated cumulative-ACK and window schedules (grow, shrink, zero, re-open, < mss, withheld ACKs) and, in a second class, honest single selective acks that never amount to a loss event (reordering); at every first transmission: outstanding <= last window outside possible recovery, nothing new at window 0, outstanding <= 2 segments + acknowledged bytes (cumulative and selective) before the first possible loss event (3 duplicates / 3 consecutive SACK packets / one SACK naming 3 packets, with one packet of margin), one segment after an RTO. Same-instant peer packets are evaluated as processed and as unprocessed; an emission at an instant at which the retransmission timer may expire (>= 200 ms since it was last armed, bytes unacknowledged) is attributed to the known timer-path finding F9.",
   note="'possible recovery' is a conservative superset; known finding F9 (timer path sends unsent segments) is counted by signature and checking continues behind it", ref="§5 C05"),
 "C06": dict(engine="SP", cat="exploration",
   technique="proptest-generated acknowledgement histories (dup/SACK/stale/silence) from a scripted peer; wire-log oracle on retransmission timing, count and content",
   text="Generated histories incl. SACK bitmaps of 1/4/8/32 bytes, duplicates, stale and too-far acks, silences up to 140 s and canonical fast-retransmit scenarios; canonical single- and double-loss scenarios with an honest selective-ack peer; checks: acked/SACKed never retransmitted, stable content, timeouts not before 200 ms and doubling (2 ms tolerance), oldest segment only, transmission count bound then failure, third duplicate => retransmission at that instant, and in every later episode a selective ack naming >= 3 held packets => retransmission of the missing one at that instant (honest histories, no episode or timeout in progress).",
   note="only the first 64 SACK bits count (documented truncation); at most one recovery retransmission may precede a timeout chain while recovery is possible", ref="§5 C06"),
 "C18": dict(engine="SP", cat="exploration",
   technique="proptest-generated write-size/ACK-timing sequences, both Nagle settings; wire-log oracle",
   text="Generated write sizes around the segment size with generated ACK timings; Nagle on: no sub-segment first transmission while earlier data is unacknowledged (huge-window class), held tail leaves at the instant the pipe drains; Nagle off (with and without size probing): everything buffered leaves at the next processed event within the slow-start allowance, except while a real probe (larger than every acknowledged segment) is outstanding; no byte lost.",
   note="window-limited class asserts only byte conservation (pre-segmentation makes window-limited cuts visible later)", ref="§5 C18"),
 "C19": dict(engine="SP", cat="exploration",
   technique="proptest-generated ring sizes, write bursts and ACK schedules; occupancy oracle from application and wire logs",
   text="Generated initial/maximum ring sizes (incl. max < initial), writers that write as fast as allowed, ACK schedules incl. a peer that stops; bound accepted-acked <= max(initial,max) after every accepted write, parked only on a full ring, resumed by the first space-freeing ACK, errors only after the connection ended, content intact across growth.",
   note="occupancy is derived from wire acks; same-instant acks are counted both ways", ref="§5 C19"),

 "C01": dict(engine="E2E", cat="exploration",
   technique="proptest-generated end-to-end transfers over a deterministic simulated lossy network; prefix and wire-content oracles against keyed payload streams",
   text="Two real sockets over the simulated network (paused tokio clock) with adversarial generated fault plans (loss, dup, delay > RTO, path-MTU blackhole, EMSGSIZE, cut), generated chunking/pauses/configurations; every read checked against the keyed stream the peer wrote, every ST_DATA checked against the stream at its derived offset. Sampled search; shrunk failures are replay files.",
   note="trusts tokio's paused clock/single-thread scheduling and sim::Net; known finding F7 is excluded by a counted guard and exercised by its witness", ref="§5 C01"),
 "C04": dict(engine="SP", cat="exploration",
   technique="proptest-generated arrival orders from a scripted raw-uTP peer; receiver reference model evaluated on every emitted datagram",
   text="Scripted peer (own BEP-29 encoder) delivers data in generated orders/sizes against generated reader behaviours and buffer/MTU settings; ack monotonicity, ack <= contiguous, SACK subset/exactness, advertised window <= free space, read == in-order concatenation checked on every emitted datagram; disciplined (exact) and hostile (one-sided) classes.",
   note="peer stimuli restricted to one meaning per sequence number and FIN as the highest number; same-instant arrivals count as possibly unprocessed for exactness clauses", ref="§5 C04"),
 "C07": dict(engine="SP", cat="exploration",
   technique="proptest-generated inter-arrival timings from a scripted peer; timestamp oracle on the wire log in virtual time",
   text="Generated arrival patterns/timings/reader schedules; each accepted in-order packet must be acked within 40 ms (+1 ms timer granularity) and at the same virtual instant for out-of-order, gap-fill, duplicate, FIN, >= 2*mss and window re-opening; idle silence checked in 5-120 s gaps.",
   note="'immediately' = equal virtual timestamps; inactivity timeout set to 1 h so that it does not interfere", ref="§5 C07"),

 "C09": dict(engine="COMP+E2E", cat="exploration",
   technique="exhaustive enumeration of all 2^32 sequence-number pairs against true modular arithmetic; metamorphic relabelled-trace equality on generated scenarios",
   text="(a) SeqNr difference/ordering compared with true modular distance on every one of the 2^32 pairs (complete for |d|<32768); (b) generated lossy end-to-end scenarios (up to 150/600 KB each way, adversarial fault plans, black holes) run twice (small ISNs vs generated ISNs/ids, 75 % wrapping 1..400/3000 packets into the transfer): the wire logs must be equal datagram by datagram (instant, type, window, timestamps, extensions, payload, fate) with seq/ack/id relative to each run's bases, and the applications must observe the same. (a) is exhaustive, (b) is sampled search with the wrap region over-weighted.",
   note="trusts the reference modular-distance function (unit-tested), tokio's paused clock and the simulated network for (b)", ref="§5 C09"),
 "C10": dict(engine="SP", cat="exploration",
   technique="proptest-generated hostile datagram sequences (structured, damaged encodings, raw bytes, foreign and spoofed sources) from a scripted peer in every connection state, with a concurrent legitimate connection on the same socket; crash / internal-error / buffer-bound / bystander-integrity oracle; libFuzzer targets over the same oracle and over the parsers",
   text="A scripted peer holding a connection with the socket under test sends data in and out of window, acks behind/at/beyond what was sent, any window, selective acks of 0..255 bytes, FIN/RESET/SYN in any state, crafted packets of every type with near and random ids, encodings damaged by overwrites/forced extension bytes/junk/truncation, raw bytes, datagrams from unbound addresses and spoofed from the bystander's address, interleaved with application actions and clock advances; a second real socket runs a token + keyed exchange meanwhile and opens a fresh connection afterwards. No panic in library code, no 'bug' error, no spin, buffered bytes/messages within slots x 16384, bystander complete/intact/clean EOF, fresh connection established.",
   note="datagrams spoofed from the bystander's address never carry the bystander's own or next ids (that would be aimed at it); SYN floods beyond the 32-request queue are not asserted against", ref="§5 C10"),
 "C11": dict(engine="COMP", cat="exploration",
   technique="differential testing against an independent BEP-29 parser over an exhaustive shape grid plus proptest-generated byte strings; serialize/parse round-trip on generated headers; wire oracle on every emitted datagram",
   text="Parser totality and exact acceptance decided differentially against an independently written BEP-29 parser on ~3.8M enumerated shapes (type x version x chain shape x every truncation) and generated inputs; round trip on generated header values and buffer sizes; raw byte strings; four emitter classes (lossy transfers, a socket under hostile traffic, concurrent connect/accept, overflowing listeners) in which every datagram a real socket sends must be accepted by the reference parser, carry version 1, payload exactly on data packets and the connection id owed to its direction.",
   note="trusts model::refparse (unit-tested on the repo's captured packet)", ref="§5 C11"),
 "C15": dict(engine="COMP", cat="exploration",
   technique="proptest-generated event sequences on Cubic with stated-inequality oracle after every step",
   text="Generated sequences of acks/timeouts/recovery/MSS/peer-window events with extreme numeric arguments; window bounds, loss reaction (0.7, two-segment floor), slow-start growth and MSS rescaling checked after every step with 2 B + 1e-9 tolerance.",
   note="MSS restricted to non-decreasing values >= 1 (all SegmentSizes can produce); violations smaller than the tolerance are invisible", ref="§5 C15"),
 "C16": dict(engine="COMP", cat="exploration",
   technique="proptest-generated sample/timeout sequences compared with an integer-nanosecond RFC 6298 reference model",
   text="Generated sequences of RTT samples (0 ns..hours, boundary values, steady-path runs of 4..60 nearly equal samples so that the clock-granularity floor of the variance term becomes decisive) and timeouts; RTO, SRTT compared with an independent RFC 6298 model after every step (128 ns tolerance), bounds 200 ms..60 s, doubling, reset on sample, SRTT within sample range.",
   note="trusts model::rto", ref="§5 C16"),
}

NOT_YET = {}

def main():
    props=[json.loads(l) for l in open('/verif/properties.jsonl')]
    checks=[]; na=[]
    for p in props:
        i=p['id']
        if i in CHECKS:
            c=CHECKS[i]
            checks.append(dict(property_id=i, quick_cmd=f"./check {i} quick", thorough_cmd=f"./check {i} thorough",
              evidence_file=f"/verif/evidence/{i}.json", replay_cmd_template=f"./check --replay {i} {{path}}",
              engine=c['engine'], level_claimed=dict(category=c['cat'], text=c['text'], design_ref=c['ref']),
              level_note=c['note'], technique=c['technique']))
        else:
            na.append(dict(property_id=i, reason=NOT_YET.get(i, "check not built yet in this revision of /verif (planned: generated-input search, see DESIGN.md §5); nothing is claimed for it")))
    m=dict(version=1, setup_cmd="./setup.sh",
      hooks=dict(guard="librqbit_utp_verif", enable="RUSTFLAGS='--cfg librqbit_utp_verif --cfg tokio_unstable' via /verif/harness/.cargo/config.toml (rustc cfg, not a cargo feature)",
                 baseline_off_cmd="cd /repo && cargo test --workspace --no-fail-fast --offline", source_commits=HOOK_COMMITS, add_only=True),
      engines=[dict(name="utpverif", path="/verif/harness", serves_properties=sorted(CHECKS), kind_free_text="Rust harness: proptest-driven sharded case generation, deterministic simulated network on tokio's paused clock, reference models, shrinking and JSON replay")],
      checks=checks, not_applicable=na,
      notes="All checks: ./check <ID> <quick|thorough>; exit 0 ok (KNOWN-FINDING lines allowed), 1 VIOLATION, 2 machinery problem. VERIF_SEED selects the PRNG stream. known_findings.json lists fixed/known findings.")
    json.dump(m, open('/verif/MANIFEST.json','w'), indent=1)
    print("checks:", len(checks), "not_applicable:", len(na))
main()
