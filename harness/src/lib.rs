pub mod engine;
pub mod model;
pub mod props;
pub mod sim;
