pub mod engine;
pub mod model;
pub mod props;
