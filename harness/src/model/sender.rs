//! Observer of an endpoint's transmissions against the ACK/window history it has processed
//! (SP engine: socket <-> peer latency is zero, so a peer packet is "processed" at the instant
//! it is injected — except that a datagram emitted at that same instant may have left before
//! the packet was read; callers evaluate constraints under both interpretations via `prev`).

use std::collections::{BTreeMap, BTreeSet};

use crate::model::{refparse::{self, RefPacket}, seq::dist};

#[derive(Clone, Debug, Default)]
pub struct Seg {
    /// payload lengths of every transmission, in order
    pub lens: Vec<usize>,
    pub times: Vec<u64>,
    pub first_payload: Vec<u8>,
    /// instant at which an ack covering it (cumulative / selective) was injected
    pub cum_acked_at: Option<u64>,
    pub sacked_at: Option<u64>,
    /// largest payload acked (or received from the peer) before its first transmission
    pub mss_at_first: usize,
}

#[derive(Clone, Debug)]
pub struct AckState {
    /// highest cumulatively acked rel seq (-1 = none)
    pub cum: i32,
    pub sacked: BTreeSet<i32>,
    pub wnd: u32,
    pub acked_bytes: u64,
    /// conservative superset of the implementation's fast-recovery episodes
    pub poss_recovery: bool,
    /// tighter superset used for "before the first loss event": the implementation enters recovery on 3
    /// duplicate plain ACKs, on 3 consecutive SACK-bearing packets or on one SACK naming >= 3 packets;
    /// one packet of margin is kept for same-instant ambiguity (2 duplicates / 2 consecutive SACK packets)
    pub poss_loss_event: bool,
    pub sack_streak: u32,
    pub recovery_point: i32,
    pub dup_count: u32,
    pub last_pure: Option<(u16, u32)>,
    pub ever_sack: bool,
    /// an advancing ack has been processed since the last RTO retransmission
    pub t_last_rx: u64,
    pub t_last_advance: u64,
    pub mss_now: usize,
    pub n_rx: u64,
}

pub struct SenderObs {
    pub first_seq: Option<u16>,
    pub expected_first: u16,
    pub segs: BTreeMap<i32, Seg>,
    pub highest: i32,
    pub fin_rel: Option<i32>,
    pub fin_times: Vec<u64>,
    pub st: AckState,
    /// state before the most recent peer packet (for same-instant ambiguity)
    pub prev: AckState,
    pub mss0: usize,
    pub peer_max_payload: usize,
    /// (instant, payload length) of data packets received from the peer
    pub peer_payloads: Vec<(u64, usize)>,
    /// (incremental bookkeeping that keeps `on_tx_data` cheap on cases with tens of thousands of segments)
    /// sum of the current cuts of all numbers transmitted so far
    cur_total: u64,
    /// (instant, number) of every segment's first acknowledgement (cumulative or selective), in time order
    ack_events: Vec<(u64, i32)>,
    /// how many of `ack_events` are folded into `proven_frozen` (all strictly before the instant of the last query)
    ack_events_done: usize,
    proven_frozen: usize,
    peer_prefix_max: Vec<usize>,
    /// application writes: (instant, cumulative bytes accepted) — optional, see `on_tx_data`
    pub writes: Vec<(u64, u64)>,
}

#[derive(Clone, Debug, PartialEq, Eq)]
pub enum TxKind {
    First,
    Retransmission,
}

impl SenderObs {
    pub fn new(expected_first: u16, initial_wnd: u32, mss0: usize) -> Self {
        let st = AckState { cum: -1, sacked: BTreeSet::new(), wnd: initial_wnd, acked_bytes: 0, poss_recovery: false, poss_loss_event: false, sack_streak: 0, recovery_point: -1, dup_count: 0, last_pure: None, ever_sack: false, t_last_rx: 0, t_last_advance: 0, mss_now: mss0, n_rx: 0 };
        SenderObs { first_seq: None, expected_first, segs: BTreeMap::new(), highest: -1, fin_rel: None, fin_times: vec![], prev: st.clone(), st, mss0, peer_max_payload: 0, peer_payloads: vec![], writes: vec![], cur_total: 0, ack_events: vec![], ack_events_done: 0, proven_frozen: 0, peer_prefix_max: vec![] }
    }

    /// unwrapped index of `seq` relative to the first data seq: resolved around the highest
    /// number sent so far, so transfers longer than half the sequence space stay monotone
    pub fn rel(&self, seq: u16) -> i32 {
        let top = self.highest.max(self.fin_rel.unwrap_or(-1)).max(0);
        let top_seq = self.expected_first.wrapping_add(top as u16);
        top + dist(seq, top_seq)
    }

    /// bytes sent and not acknowledged under ack state `s`, up to and including rel `upto`
    pub fn outstanding(&self, s: &AckState, upto: i32) -> u64 {
        self.segs.range((s.cum + 1)..=upto).filter(|(k, _)| !s.sacked.contains(k)).map(|(_, g)| *g.lens.last().unwrap() as u64).sum()
    }

    /// bytes selectively (not yet cumulatively) acknowledged under ack state `s`
    pub fn sacked_bytes(&self, s: &AckState) -> u64 {
        s.sacked.iter().filter(|k| **k > s.cum).filter_map(|k| self.segs.get(k)).map(|g| *g.lens.last().unwrap() as u64).sum()
    }

    pub fn unacked_count(&self, s: &AckState) -> usize {
        self.segs.range((s.cum + 1)..).filter(|(k, _)| !s.sacked.contains(k)).count()
    }

    /// the socket emitted a data packet
    pub fn on_tx_data(&mut self, t: u64, p: &RefPacket) -> (i32, TxKind) {
        let k = self.rel(p.seq);
        self.first_seq.get_or_insert(p.seq);
        let kind = if k > self.highest { TxKind::First } else { TxKind::Retransmission };
        // proven size when this segment is first sent: the largest acknowledged payload, taking for each
        // acknowledged segment the cut that was on the wire last at or before the instant of its ack (a probe that
        // expires at the very instant its ack arrives is re-cut first; the ack then covers the shorter cut), or
        // whatever larger size the peer itself sent
        // Segments are cut ahead of their transmission, and whether one counts as a probe is decided when it is cut:
        // the proven size is therefore taken at the earliest instant the segment can have been cut — when the
        // application wrote the first of its bytes (if the caller supplied write times; else at transmission).
        let mss = if self.segs.get(&k).is_none_or(|g| g.lens.is_empty()) {
            // (stream offset of this segment: the earlier numbers with their *current* cuts — an expired probe was
            // re-cut shorter and its tail moved to the numbers behind it)
            let offset: u64 = if k > self.highest { self.cur_total } else { self.segs.range(..k).map(|(_, g)| *g.lens.last().unwrap_or(&0) as u64).sum() };
            let wi = self.writes.partition_point(|(_, cum)| *cum <= offset);
            let t_cut = self.writes.get(wi).map(|(tw, _)| (*tw).min(t)).unwrap_or(t);
            // acknowledgements strictly before this instant are final: fold them into the frozen maximum while they lie
            // at or before the cut instant (cut instants do not decrease from one segment to the next)
            let len_at = |segs: &BTreeMap<i32, Seg>, ta: u64, kk: i32| -> usize { segs.get(&kk).and_then(|g| g.times.iter().rposition(|x| *x <= ta).map(|i| g.lens[i])).unwrap_or(0) };
            while let Some(&(ta, kk)) = self.ack_events.get(self.ack_events_done) {
                if ta >= t || ta > t_cut { break; }
                self.proven_frozen = self.proven_frozen.max(len_at(&self.segs, ta, kk));
                self.ack_events_done += 1;
            }
            let mut m = self.mss0.max(self.proven_frozen);
            // the rest (same instant as this transmission, or beyond the frozen prefix) is evaluated directly
            for &(ta, kk) in &self.ack_events[self.ack_events_done..] {
                if ta > t_cut { break; }
                m = m.max(len_at(&self.segs, ta, kk));
            }
            let pi = self.peer_payloads.partition_point(|(tp, _)| *tp <= t_cut);
            let peer_max = self.peer_payload_prefix_max(pi);
            m.max(peer_max)
        } else { 0 };
        let g = self.segs.entry(k).or_default();
        if g.lens.is_empty() {
            g.first_payload = p.payload.clone();
            g.mss_at_first = mss;
        }
        let prev_len = g.lens.last().copied().unwrap_or(0);
        g.lens.push(p.payload.len());
        g.times.push(t);
        self.cur_total = self.cur_total + p.payload.len() as u64 - prev_len as u64;
        self.highest = self.highest.max(k);
        (k, kind)
    }

    fn peer_payload_prefix_max(&self, upto: usize) -> usize {
        if upto == 0 { 0 } else { self.peer_prefix_max[upto - 1] }
    }

    pub fn on_tx_fin(&mut self, t: u64, p: &RefPacket) {
        let k = self.rel(p.seq);
        self.fin_rel.get_or_insert(k);
        self.fin_times.push(t);
    }

    /// a peer packet was injected (any type carrying ack/wnd)
    pub fn on_rx(&mut self, t: u64, p: &RefPacket) {
        if p.ptype == refparse::ST_RESET || p.ptype == refparse::ST_SYN {
            return;
        }
        self.prev = self.st.clone();
        let a_raw = self.rel(p.ack);
        let s = &mut self.st;
        s.n_rx += 1;
        s.t_last_rx = t;
        if p.ptype == refparse::ST_DATA {
            s.mss_now = s.mss_now.max(p.payload.len());
            self.peer_max_payload = self.peer_max_payload.max(p.payload.len());
            self.peer_payloads.push((t, p.payload.len()));
            let pm = self.peer_prefix_max.last().copied().unwrap_or(0).max(p.payload.len());
            self.peer_prefix_max.push(pm);
        }
        // an ack beyond what was sent acknowledges everything sent so far *and* (this is what the
        // implementation does) segments that are queued but were never transmitted: their numbers
        // are skipped on the wire. Absurdly distant values are treated as stale.
        let top = self.highest.max(self.fin_rel.unwrap_or(-1));
        let a = if a_raw > top + 20_000 { s.cum } else { a_raw };
        let bits = p.sack_bits();
        let has_sack = p.last_ext(1).is_some();
        if a > s.cum {
            for (k, g) in self.segs.range_mut((s.cum + 1)..=a) {
                let _ = k;
                if g.cum_acked_at.is_none() && g.sacked_at.is_none() { self.ack_events.push((t, *k)); }
                g.cum_acked_at.get_or_insert(t);
                s.acked_bytes += *g.lens.last().unwrap() as u64;
                s.mss_now = s.mss_now.max(*g.lens.last().unwrap());
            }
            s.cum = a;
            s.t_last_advance = t;
            s.sacked = s.sacked.split_off(&(a + 1));
            s.dup_count = 0;
            if s.poss_recovery && s.cum >= s.recovery_point {
                s.poss_recovery = false;
            }
        } else if p.ptype == refparse::ST_STATE && !has_sack {
            // (the implementation compares with the previous ACK only, so stale repeated ACKs
            // count as duplicates too: keep the superset)
            if s.last_pure == Some((p.ack, p.wnd)) {
                s.dup_count += 1;
            } else {
                s.dup_count = 0;
            }
        }
        if p.ptype == refparse::ST_STATE {
            s.last_pure = Some((p.ack, p.wnd));
        }
        if has_sack {
            s.ever_sack = true;
            // selective acks are relative to this packet's ack_nr
            if a_raw >= s.cum || true {
                // (the crate documents that it keeps only the first 64 bits of a longer bitmap)
                for (i, b) in bits.iter().take(64).enumerate() {
                    let k = a_raw + 2 + i as i32;
                    if *b && k > s.cum {
                        if let Some(g) = self.segs.get_mut(&k) {
                            if g.cum_acked_at.is_none() && g.sacked_at.is_none() { self.ack_events.push((t, k)); }
                            g.sacked_at.get_or_insert(t);
                            s.mss_now = s.mss_now.max(*g.lens.last().unwrap());
                            s.sacked.insert(k);
                        }
                    }
                }
            }
        }
        // conservative recovery flag: 2nd duplicate or any SACK. (The implementation counts
        // duplicates whenever a segment is queued, transmitted or not, so "data outstanding on
        // the wire" is deliberately not required here.)
        if has_sack { s.sack_streak += 1; } else { s.sack_streak = 0; }
        if s.dup_count >= 2 || s.sack_streak >= 2 || bits.iter().take(64).filter(|b| **b).count() >= 3 {
            s.poss_loss_event = true;
        }
        if s.dup_count >= 2 || has_sack {
            s.poss_recovery = true;
            s.recovery_point = s.recovery_point.max(self.highest);
        }
        s.wnd = p.wnd;
    }
}
