//! Prefix / wire-content oracles for byte streams.
//!
//! Wire-content oracle: each direction's data sequence numbers are mapped to absolute stream
//! offsets (off(s0) = 0, off(s+1) = off(s) + len(s), where len(s) is the length of the last
//! transmission of s that preceded the first transmission of s+1); every transmission of s
//! must carry written[off(s) .. off(s)+len].

use std::{collections::BTreeMap, net::SocketAddr};

use crate::model::{refparse, seq::dist};
use crate::sim::{WireRec, app::Stream};

#[derive(Debug, Default, Clone)]
pub struct DirReport {
    pub data_packets: usize,
    pub distinct_seqs: usize,
    pub retransmissions: usize,
    pub bytes_first_tx: u64,
    /// (log index, seq, description)
    pub bad: Option<(usize, u16, String)>,
    /// seqs transmitted with more than one length: (seq, lens in order)
    pub resegmented: Vec<(u16, Vec<usize>)>,
    pub first_seq: Option<u16>,
    pub max_payload: usize,
    pub wrapped: bool,
    /// checking stopped early (a FIN took a sequence number, or first transmissions had a gap):
    /// offsets of later data cannot be derived from the wire alone
    pub indeterminate_from: Option<usize>,
}

/// Check all ST_DATA datagrams emitted by `src` towards `dst` carrying `conn_id`.
pub fn check_direction(log: &[WireRec], src: SocketAddr, dst: SocketAddr, conn_id: u16, stream: Stream) -> DirReport {
    let mut rep = DirReport::default();
    let mut first_seq: Option<u16> = None;
    // rel -> (offset, last len seen, frozen)
    let mut off: BTreeMap<i32, u64> = BTreeMap::new();
    let mut last_len: BTreeMap<i32, usize> = BTreeMap::new();
    let mut lens: BTreeMap<i32, Vec<usize>> = BTreeMap::new();
    let mut highest: i32 = -1;
    for r in log {
        if !r.from_stack || r.src != src || r.dst != dst {
            continue;
        }
        let Some(p) = &r.pkt else { continue };
        if p.conn_id != conn_id {
            continue;
        }
        if p.ptype == refparse::ST_FIN {
            // data emitted after the endpoint's own FIN is C17's business, not C01's
            rep.indeterminate_from.get_or_insert(r.idx);
            break;
        }
        if p.ptype != refparse::ST_DATA {
            continue;
        }
        rep.data_packets += 1;
        rep.max_payload = rep.max_payload.max(p.payload.len());
        let fs = *first_seq.get_or_insert(p.seq);
        // unwrap around the highest number seen so far (transfers may be longer than 32767 packets)
        let top = highest.max(0);
        let rel = top + dist(p.seq, fs.wrapping_add(top as u16));
        if (p.seq as u32) < (fs as u32) && rel > 0 {
            rep.wrapped = true;
        }
        if rel < 0 {
            rep.bad.get_or_insert((r.idx, p.seq, format!("data seq {} precedes the first data seq {} of the connection", p.seq, fs)));
            continue;
        }
        if rel > highest + 1 {
            rep.indeterminate_from.get_or_insert(r.idx);
            break;
        }
        if rel == highest + 1 {
            // first transmission of rel: freeze len of rel-1
            let o = if rel == 0 { 0 } else { off[&(rel - 1)] + last_len[&(rel - 1)] as u64 };
            off.insert(rel, o);
            highest = rel;
            rep.distinct_seqs += 1;
            rep.bytes_first_tx += p.payload.len() as u64;
        } else {
            rep.retransmissions += 1;
        }
        let o = off[&rel];
        if let Some(i) = stream.mismatch(o, &p.payload) {
            rep.bad.get_or_insert((r.idx, p.seq, format!("transmission of seq {} (stream offset {}, {} bytes) deviates from the written stream at payload byte {} (stream offset {})", p.seq, o, p.payload.len(), i, o + i as u64)));
        }
        // a seq may be re-cut only while the next seq has not been transmitted yet
        if rel < highest && last_len.get(&rel).is_some_and(|l| *l != p.payload.len()) {
            rep.bad.get_or_insert((r.idx, p.seq, format!("seq {} retransmitted with {} bytes after seq {} was already transmitted on the basis of {} bytes", p.seq, p.payload.len(), p.seq.wrapping_add(1), last_len[&rel])));
        }
        if rel == highest {
            last_len.insert(rel, p.payload.len());
        }
        let v = lens.entry(rel).or_default();
        if v.last() != Some(&p.payload.len()) {
            v.push(p.payload.len());
        }
    }
    rep.first_seq = first_seq;
    for (rel, v) in lens {
        if v.len() > 1 {
            rep.resegmented.push((first_seq.unwrap().wrapping_add(rel as u16), v));
        }
    }
    rep
}

/// conn id used in SYNs from `a` to `b`, in log order
pub fn syn_ids(log: &[WireRec], a: SocketAddr, b: SocketAddr) -> Vec<u16> {
    let mut v = vec![];
    for r in log {
        if r.src == a && r.dst == b {
            if let Some(p) = &r.pkt {
                if p.ptype == refparse::ST_SYN && !v.contains(&p.conn_id) {
                    v.push(p.conn_id);
                }
            }
        }
    }
    v
}
