//! True modular (serial-number) arithmetic on 16-bit sequence numbers.

/// Signed distance a − b in (−32768, 32768]; for |d| < 32768 this is the unique
/// representative of (a − b) mod 65536 with the smallest magnitude.
pub fn dist(a: u16, b: u16) -> i32 {
    let d = a.wrapping_sub(b) as i32; // 0..65535
    if d >= 32768 { d - 65536 } else { d }
}

pub fn lt(a: u16, b: u16) -> bool {
    dist(a, b) < 0
}
pub fn le(a: u16, b: u16) -> bool {
    dist(a, b) <= 0
}

#[cfg(test)]
mod tests {
    use super::*;
    #[test]
    fn basics() {
        assert_eq!(dist(2, 1), 1);
        assert_eq!(dist(0, 65535), 1);
        assert_eq!(dist(65535, 0), -1);
        assert_eq!(dist(1024, 65535), 1025);
        assert_eq!(dist(65535, 1024), -1025);
        assert_eq!(dist(32767, 0), 32767);
        assert_eq!(dist(0, 32767), -32767);
    }
}
