//! Reference models and oracles. None of these calls into the crate under test.
pub mod bytestream;
pub mod refparse;
pub mod rto;
pub mod sender;
pub mod seq;
