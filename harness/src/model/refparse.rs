//! Independent BEP-29 packet parser and encoder, written from the BEP 29 text:
//!
//!  0       4       8               16              24              32
//!  | type  | ver   | extension     | connection_id                 |
//!  | timestamp_microseconds                                        |
//!  | timestamp_difference_microseconds                             |
//!  | wnd_size                                                      |
//!  | seq_nr                        | ack_nr                        |
//!
//! extension chain: [next_ext: u8][len: u8][len bytes] …, terminated by next_ext == 0.

use serde::{Deserialize, Serialize};

pub const ST_DATA: u8 = 0;
pub const ST_FIN: u8 = 1;
pub const ST_STATE: u8 = 2;
pub const ST_RESET: u8 = 3;
pub const ST_SYN: u8 = 4;

#[derive(Clone, Debug, PartialEq, Eq, Serialize, Deserialize, Default)]
pub struct RefPacket {
    pub ptype: u8,
    pub version: u8,
    pub conn_id: u16,
    pub ts: u32,
    pub ts_diff: u32,
    pub wnd: u32,
    pub seq: u16,
    pub ack: u16,
    /// (extension id, data) in chain order
    pub exts: Vec<(u8, Vec<u8>)>,
    pub payload: Vec<u8>,
}

#[derive(Clone, Debug, PartialEq, Eq)]
pub enum RefReject {
    TooShort,
    BadVersion(u8),
    BadType(u8),
    ChainOverrun,
    PayloadRule,
}

impl RefPacket {
    pub fn header_len(&self) -> usize {
        20 + self.exts.iter().map(|(_, d)| 2 + d.len()).sum::<usize>()
    }

    /// first SACK extension's bytes, if any (the crate keeps the *last* one; callers that
    /// compare must use `last_ext`)
    pub fn last_ext(&self, id: u8) -> Option<&[u8]> {
        self.exts.iter().rev().find(|(i, _)| *i == id).map(|(_, d)| d.as_slice())
    }

    pub fn sack_bits(&self) -> Vec<bool> {
        match self.last_ext(1) {
            None => vec![],
            Some(d) => {
                let mut v = Vec::with_capacity(d.len() * 8);
                for byte in d {
                    for bit in 0..8 {
                        v.push(byte & (1 << bit) != 0);
                    }
                }
                v
            }
        }
    }

    pub fn type_name(&self) -> &'static str {
        match self.ptype {
            0 => "DATA",
            1 => "FIN",
            2 => "STATE",
            3 => "RESET",
            4 => "SYN",
            _ => "?",
        }
    }

    pub fn short(&self) -> String {
        let mut s = format!(
            "{} id={} seq={} ack={} wnd={}",
            self.type_name(),
            self.conn_id,
            self.seq,
            self.ack,
            self.wnd
        );
        if let Some(d) = self.last_ext(1) {
            s.push_str(&format!(" sack={:02x?}", d));
        }
        if !self.payload.is_empty() {
            s.push_str(&format!(" len={}", self.payload.len()));
        }
        s
    }
}

/// Header-level parse: everything after the extension chain is returned as payload with no
/// rule applied (mirrors `UtpHeader::deserialize` + payload boundary).
pub fn parse_header(buf: &[u8]) -> Result<RefPacket, RefReject> {
    if buf.len() < 20 {
        return Err(RefReject::TooShort);
    }
    let ptype = buf[0] >> 4;
    let version = buf[0] & 0x0f;
    if version != 1 {
        return Err(RefReject::BadVersion(version));
    }
    if ptype > 4 {
        return Err(RefReject::BadType(ptype));
    }
    let be16 = |i: usize| u16::from_be_bytes([buf[i], buf[i + 1]]);
    let be32 = |i: usize| u32::from_be_bytes([buf[i], buf[i + 1], buf[i + 2], buf[i + 3]]);
    let mut p = RefPacket {
        ptype,
        version,
        conn_id: be16(2),
        ts: be32(4),
        ts_diff: be32(8),
        wnd: be32(12),
        seq: be16(16),
        ack: be16(18),
        exts: vec![],
        payload: vec![],
    };
    let mut next = buf[1];
    let mut pos = 20usize;
    while next != 0 {
        if pos + 2 > buf.len() {
            return Err(RefReject::ChainOverrun);
        }
        let id = next;
        next = buf[pos];
        let len = buf[pos + 1] as usize;
        if pos + 2 + len > buf.len() {
            return Err(RefReject::ChainOverrun);
        }
        p.exts.push((id, buf[pos + 2..pos + 2 + len].to_vec()));
        pos += 2 + len;
    }
    p.payload = buf[pos..].to_vec();
    Ok(p)
}

/// Message-level parse: additionally "payload present exactly for data packets".
pub fn parse_message(buf: &[u8]) -> Result<RefPacket, RefReject> {
    let p = parse_header(buf)?;
    let has_payload = !p.payload.is_empty();
    if (p.ptype == ST_DATA) != has_payload {
        return Err(RefReject::PayloadRule);
    }
    Ok(p)
}

/// Encoder (used by the scripted peer so that stimuli never pass through the crate's
/// serializer).
pub fn encode(p: &RefPacket) -> Vec<u8> {
    let mut b = Vec::with_capacity(p.header_len() + p.payload.len());
    b.push((p.ptype << 4) | (p.version & 0x0f));
    b.push(p.exts.first().map(|e| e.0).unwrap_or(0));
    b.extend_from_slice(&p.conn_id.to_be_bytes());
    b.extend_from_slice(&p.ts.to_be_bytes());
    b.extend_from_slice(&p.ts_diff.to_be_bytes());
    b.extend_from_slice(&p.wnd.to_be_bytes());
    b.extend_from_slice(&p.seq.to_be_bytes());
    b.extend_from_slice(&p.ack.to_be_bytes());
    for (i, (_, d)) in p.exts.iter().enumerate() {
        b.push(p.exts.get(i + 1).map(|e| e.0).unwrap_or(0));
        b.push(d.len() as u8);
        b.extend_from_slice(d);
    }
    b.extend_from_slice(&p.payload);
    b
}

#[cfg(test)]
mod tests {
    use super::*;
    #[test]
    fn captured_fin_with_close_reason() {
        let pkt = std::fs::read("/repo/test/resources/packet_fin_with_extension.bin").unwrap();
        let p = parse_message(&pkt).unwrap();
        assert_eq!(p.ptype, ST_FIN);
        assert_eq!(p.conn_id, 30796);
        assert_eq!(p.seq, 54661);
        assert_eq!(p.ack, 54397);
        assert_eq!(p.wnd, 1048576);
        assert_eq!(p.exts, vec![(3u8, vec![0, 0, 0, 15])]);
        assert_eq!(encode(&p), pkt);
    }
    #[test]
    fn chain_and_payload() {
        let p = RefPacket {
            ptype: ST_DATA, version: 1, conn_id: 7, ts: 1, ts_diff: 2, wnd: 3, seq: 4, ack: 5,
            exts: vec![(1, vec![1, 0, 0, 0, 0, 0, 0, 0]), (9, vec![]), (3, vec![0, 0, 1, 2])],
            payload: vec![9, 9, 9],
        };
        let b = encode(&p);
        assert_eq!(parse_message(&b).unwrap(), p);
        assert_eq!(parse_header(&b[..b.len() - 3]).unwrap().payload.len(), 0);
        assert_eq!(parse_message(&b[..b.len() - 3]), Err(RefReject::PayloadRule));
        assert_eq!(parse_header(&b[..25]), Err(RefReject::ChainOverrun));
        assert_eq!(parse_header(&b[..19]), Err(RefReject::TooShort));
    }
}
