//! RFC 6298 in integer nanoseconds (alpha = 1/8, beta = 1/4, K = 4, G = 10 ms,
//! clamp 200 ms .. 60 s; initial RTO 300 ms as documented in the crate).

pub const MIN_RTO: u128 = 200_000_000;
pub const MAX_RTO: u128 = 60_000_000_000;
pub const GRAN: u128 = 10_000_000;
pub const INITIAL: u128 = 300_000_000;

#[derive(Clone, Debug)]
pub struct RtoModel {
    pub srtt: Option<u128>,
    pub rttvar: u128,
    pub rto: u128,
    pub min_sample: Option<u128>,
    pub max_sample: Option<u128>,
}

impl Default for RtoModel {
    fn default() -> Self {
        RtoModel { srtt: None, rttvar: 0, rto: INITIAL, min_sample: None, max_sample: None }
    }
}

fn clamp(x: u128) -> u128 {
    x.clamp(MIN_RTO, MAX_RTO)
}

impl RtoModel {
    pub fn sample(&mut self, r: u128) {
        self.min_sample = Some(self.min_sample.map_or(r, |m| m.min(r)));
        self.max_sample = Some(self.max_sample.map_or(r, |m| m.max(r)));
        match self.srtt {
            None => {
                self.srtt = Some(r);
                self.rttvar = r / 2;
            }
            Some(s) => {
                let diff = if s > r { s - r } else { r - s };
                // (1-beta)*rttvar + beta*|srtt - r|
                self.rttvar = (self.rttvar * 3 + diff) / 4;
                self.srtt = Some((s * 7 + r) / 8);
            }
        }
        self.rto = clamp(self.srtt.unwrap() + (4 * self.rttvar).max(GRAN));
    }
    pub fn timeout(&mut self) {
        self.rto = clamp(self.rto * 2);
    }
}
