use utpverif::engine::{Tier, install_panic_hook, start_watchdog};

fn usage() -> ! {
    eprintln!("usage: utpverif run <ID> <quick|thorough> | replay <ID> <file> | list");
    std::process::exit(2);
}

fn main() {
    // a panic that escapes every guard is a defect of this machinery: say so and exit 2 (never 101, never silently)
    let r = std::panic::catch_unwind(real_main);
    if r.is_err() {
        let panics = utpverif::engine::take_panics();
        eprintln!("ENGINE-ERROR: uncaught panic in the harness: {}", panics.join(" ; "));
        println!("ENGINE-ERROR: uncaught panic in the harness: {}", panics.join(" ; "));
        std::process::exit(2);
    }
}

fn real_main() {
    let args: Vec<String> = std::env::args().collect();
    if args.len() < 2 {
        usage();
    }
    match args[1].as_str() {
        "fuzzin" => {
            // run one libFuzzer input through the same entry the fuzz target uses
            let data = std::fs::read(&args[3]).expect("input file");
            let rc = match args[2].as_str() {
                "C10" => utpverif::engine::fuzz_case::<utpverif::props::c10::Hostile>("C10", &utpverif::props::c10::decode(&data)),
                "C11" => utpverif::engine::fuzz_case::<utpverif::props::c11::Raw>("C11", &utpverif::props::c11::RawCase { bytes: data }),
                _ => 2,
            };
            println!("rc={rc}");
            std::process::exit(rc);
        }
        "list" => {
            for id in utpverif::props::ALL {
                println!("{id}");
            }
        }
        "run" => {
            if args.len() < 4 {
                usage();
            }
            let id: &'static str = Box::leak(args[2].clone().into_boxed_str());
            let tier_s = std::env::var("VERIF_TIER").ok().filter(|s| !s.is_empty()).unwrap_or(args[3].clone());
            let tier = match tier_s.as_str() {
                "quick" => Tier::Quick,
                "thorough" => Tier::Thorough,
                _ => usage(),
            };
            let seed: u64 = std::env::var("VERIF_SEED").ok().and_then(|s| s.trim().parse::<i128>().ok()).map(|v| v as u64).unwrap_or(0);
            install_panic_hook();
            let total = match tier { Tier::Quick => 1500, Tier::Thorough => 6 * 3600 };
            start_watchdog(id, 120, total);
            match utpverif::props::run(id, tier, seed) {
                Some(code) => std::process::exit(code),
                None => {
                    eprintln!("unknown property {id}");
                    std::process::exit(2);
                }
            }
        }
        "replay" => {
            if args.len() < 4 {
                usage();
            }
            let id = &args[2];
            if std::env::var("RUST_LOG").is_ok() {
                // library traces for triage (replay only; never enabled in checks)
                let _ = tracing_subscriber::fmt().with_env_filter(tracing_subscriber::EnvFilter::from_default_env()).without_time().with_ansi(false).with_writer(std::io::stdout).try_init();
            }
            let text = std::fs::read_to_string(&args[3]).unwrap_or_else(|e| {
                eprintln!("cannot read {}: {e}", args[3]);
                std::process::exit(2);
            });
            let v: serde_json::Value = serde_json::from_str(&text).unwrap_or_else(|e| {
                eprintln!("not JSON: {e}");
                std::process::exit(2);
            });
            match utpverif::props::replay(id, &v) {
                Some(code) => std::process::exit(code),
                None => {
                    eprintln!("no sub-check of {id} matches this file");
                    std::process::exit(2);
                }
            }
        }
        _ => usage(),
    }
}
