//! Deterministic simulated network on tokio's paused clock.
//!
//! * `Net` — one in-memory network per case: totally ordered wire log, per-node delivery
//!   queues, a fault plan (data) deciding the fate of every datagram.
//! * `SimTransport` — implements the crate's public `Transport` trait on top of `Net`.
//! * `SimEnv` — implements `UtpEnvironment`: clock = tokio's virtual clock, `random_u16` = a
//!   generated value stream (part of the case).
//!
//! No harness task is needed: every `recv_from` future sleeps until the earliest datagram
//! queued for its node is due.

pub mod app;
pub mod e2e;
pub mod mc;
pub mod sp;

use std::{
    cell::Cell,
    collections::{BTreeMap, BTreeSet},
    future::Future,
    net::{IpAddr, Ipv4Addr, Ipv6Addr, SocketAddr},
    sync::Arc,
    task::{Context, Poll},
    time::Duration,
};

use librqbit_dualstack_sockets::PollSendToVectored;
use librqbit_utp::{SocketOpts, Transport, UtpSocket, verif_hooks::UtpEnvironment};
use parking_lot::Mutex;
use serde::{Deserialize, Serialize};
use tokio::sync::Notify;

use crate::model::refparse::{self, RefPacket};

pub type Sock = UtpSocket<SimTransport, SimEnv>;

// ------------------------------------------------------------------------------------------
// configuration types (all part of generated cases)

#[derive(Clone, Debug, Serialize, Deserialize)]
pub struct SockCfg {
    pub v6: bool,
    pub link_mtu: u16,
    pub rx_buf: u32,
    pub tx_init: u32,
    pub tx_max: u32,
    pub nagle: bool,
    pub max_retx: u8,
    pub inactivity_ms: u32,
    pub max_live: u16,
    pub wait_lastack: bool,
    pub probe_retx: u8,
    /// stream returned by `random_u16` (socket creation takes 1, each connect 1, each accept 1);
    /// continued deterministically when exhausted
    pub rnd: Vec<u16>,
    /// UDP payload size above which the local link refuses the send with EMSGSIZE
    /// (None = never; models IP_DONTFRAG on a link whose real MTU may be below `link_mtu`)
    pub emsgsize_above: Option<u16>,
}

impl Default for SockCfg {
    fn default() -> Self {
        SockCfg {
            v6: false,
            link_mtu: 1500,
            rx_buf: 1 << 20,
            tx_init: 32 * 1024,
            tx_max: 1 << 20,
            nagle: true,
            max_retx: 5,
            inactivity_ms: 10_000,
            max_live: 128,
            wait_lastack: true,
            probe_retx: 1,
            rnd: vec![100, 5000, 9000],
            emsgsize_above: None,
        }
    }
}

impl SockCfg {
    pub fn ip_udp(&self) -> usize {
        if self.v6 { 48 } else { 28 }
    }
    /// largest UDP payload (uTP header + data) the configured link MTU allows
    pub fn max_datagram(&self) -> usize {
        (self.link_mtu as usize).saturating_sub(self.ip_udp())
    }
    /// largest uTP payload the configured link MTU allows
    pub fn max_payload(&self) -> usize {
        self.max_datagram().saturating_sub(20)
    }
    /// protocol-minimum payload for this family, clamped to the link
    pub fn min_payload(&self) -> usize {
        let min_mtu: usize = if self.v6 { 1280 } else { 576 };
        min_mtu.min(self.link_mtu as usize).saturating_sub(self.ip_udp() + 20).max(1)
    }
    pub fn opts(&self, token: tokio_util::sync::CancellationToken) -> SocketOpts {
        use std::num::NonZeroUsize as NZ;
        SocketOpts {
            link_mtu: NZ::new(self.link_mtu as usize),
            vsock_rx_bufsize_bytes: NZ::new(self.rx_buf as usize),
            vsock_tx_bufsize_bytes_initial: NZ::new(self.tx_init as usize),
            vsock_tx_bufsize_bytes_max: NZ::new(self.tx_max as usize),
            disable_nagle: !self.nagle,
            congestion: Default::default(),
            parent_span: None,
            cancellation_token: token,
            max_retransmissions: NZ::new(self.max_retx as usize),
            remote_inactivity_timeout: Some(Duration::from_millis(self.inactivity_ms as u64)),
            max_live_vsocks: NZ::new(self.max_live as usize),
            dont_wait_for_lastack: !self.wait_lastack,
            mtu_probe_max_retransmissions: Some(self.probe_retx as usize),
        }
    }
}

pub fn addr(v6: bool, idx: usize) -> SocketAddr {
    if v6 {
        SocketAddr::new(IpAddr::V6(Ipv6Addr::new(0xfd00, 0, 0, 0, 0, 0, 0, 1 + idx as u16)), 7000 + idx as u16)
    } else {
        SocketAddr::new(IpAddr::V4(Ipv4Addr::new(10, 0, 0, 1 + idx as u8)), 7000 + idx as u16)
    }
}

#[derive(Clone, Copy, Debug, Serialize, Deserialize, PartialEq, Eq)]
pub enum Fate {
    Deliver,
    Drop,
    /// deliver, and a second copy `ms` later
    Dup(u16),
    /// deliver `ms` later than the path latency
    Delay(u16),
}

#[derive(Clone, Copy, Debug, Serialize, Deserialize, PartialEq, Eq)]
pub enum Family {
    /// fixed latency, nothing else (fates ignored)
    LossFree,
    /// arbitrary fates, but a datagram identity is dropped at most `k` times; handshake
    /// datagrams are never faulted
    FairLossy { k: u8 },
    /// anything goes
    Adversarial,
}

#[derive(Clone, Debug, Serialize, Deserialize)]
pub struct NetPlan {
    pub family: Family,
    /// one-way latency in ms, lower address -> higher address and back
    pub lat_ms: (u16, u16),
    /// IP datagram size above which the path silently discards (per direction as above)
    pub path_mtu: (Option<u16>, Option<u16>),
    /// consumed in emission order by faultable datagrams, then `Deliver`
    pub fates: Vec<Fate>,
    /// from this emission index on, everything is dropped (both directions)
    pub cut_at: Option<u32>,
}

impl Default for NetPlan {
    fn default() -> Self {
        NetPlan { family: Family::LossFree, lat_ms: (10, 10), path_mtu: (None, None), fates: vec![], cut_at: None }
    }
}

// ------------------------------------------------------------------------------------------
// wire log

#[derive(Clone, Debug, PartialEq, Eq)]
pub enum Disposition {
    /// queued for delivery at these instants (µs); two entries for a duplicate
    Deliver(Vec<u64>),
    Dropped(&'static str),
    /// the send call failed with EMSGSIZE (nothing left the host)
    Emsgsize,
}

#[derive(Clone, Debug)]
pub struct WireRec {
    pub idx: usize,
    /// global ordinal shared with the application logs
    pub ord: u64,
    pub t_us: u64,
    pub src: SocketAddr,
    pub dst: SocketAddr,
    pub bytes: Vec<u8>,
    pub pkt: Option<RefPacket>,
    pub disp: Disposition,
    /// emitted by a real socket (true) or injected by the scripted peer / harness (false)
    pub from_stack: bool,
}

impl WireRec {
    pub fn delivered(&self) -> bool {
        matches!(self.disp, Disposition::Deliver(_))
    }
    pub fn first_delivery_us(&self) -> Option<u64> {
        match &self.disp {
            Disposition::Deliver(v) => v.first().copied(),
            _ => None,
        }
    }
    pub fn line(&self) -> String {
        let p = match &self.pkt {
            Some(p) => p.short(),
            None => format!("<unparseable {} bytes>", self.bytes.len()),
        };
        format!(
            "[{:>5}] t={:>10.3}ms {}{} -> {}  {}  {:?}",
            self.idx,
            self.t_us as f64 / 1000.0,
            if self.from_stack { "" } else { "(peer) " },
            self.src.port(),
            self.dst.port(),
            p,
            self.disp
        )
    }
}

struct Node {
    queue: BTreeMap<(u64, u64), (SocketAddr, Vec<u8>)>,
    notify: Arc<Notify>,
    /// real socket: its configured datagram ceiling and EMSGSIZE threshold
    max_datagram: usize,
    emsgsize_above: Option<usize>,
    scripted: bool,
    /// pending one-shot `Poll::Pending` answers for poll_send (transport back-pressure)
    pending_sends: u32,
}

#[derive(Default, Clone, Debug)]
pub struct WirePredicates {
    /// C11(c): datagram emitted by a real socket rejected by the reference parser / wrong
    /// version / wrong connection id for its direction
    pub malformed: Vec<(usize, String)>,
    /// C14(a): datagram emitted by a real socket larger than its link MTU allows
    pub oversize: Vec<(usize, String)>,
}

struct NetInner {
    t0: tokio::time::Instant,
    log: Vec<WireRec>,
    nodes: BTreeMap<SocketAddr, Node>,
    plan: NetPlan,
    fate_cursor: usize,
    seq_counter: u64,
    drops_by_identity: BTreeMap<Vec<u8>, u8>,
    /// registered SYNs: (initiator, acceptor, conn_id) -> SYN seq_nr
    syns: BTreeMap<(SocketAddr, SocketAddr, u16), u16>,
    /// connections on which the initiator has sent something other than the SYN
    talked: BTreeSet<(SocketAddr, SocketAddr, u16)>,
    /// connections whose initiator's first data packet has been *delivered*
    first_data_seen: BTreeSet<(SocketAddr, SocketAddr, u16)>,
    preds: WirePredicates,
    pub cut: bool,
    cut_dirs: BTreeSet<(SocketAddr, SocketAddr)>,
    sends_this_instant: (u64, u32),
    /// counted guard suppressions (known findings)
    pub excluded: u64,
    /// optional hook deciding whether a datagram must be protected from faults
    protect: Vec<Box<dyn FnMut(&WireRec, &[WireRec]) -> bool + Send>>,
    pub fates_overridden_by_fairness: u64,
    pub dropped_count: u64,
    pub trace: bool,
}

#[derive(Clone)]
pub struct Net {
    inner: Arc<Mutex<NetInner>>,
}

#[derive(Clone, Debug)]
pub struct ConnEvent {
    pub ord: u64,
    pub t_us: u64,
    /// "vsock-end" (the connection task is about to finish) or "vsock-drop"
    pub kind: String,
    pub remote: String,
    pub id: u16,
    pub state: String,
    /// error with which the task ends ("none" for a clean end)
    pub error: String,
    /// "vsock-buf": (bytes queued for the reader, reassembly messages, reassembly bytes)
    pub buf: (u64, u64, u64),
}

thread_local! {
    static CONN_EVENTS: std::cell::RefCell<Vec<ConnEvent>> = const { std::cell::RefCell::new(Vec::new()) };
    static T0: Cell<Option<tokio::time::Instant>> = const { Cell::new(None) };
}

pub fn take_conn_events() -> Vec<ConnEvent> {
    CONN_EVENTS.with(|c| std::mem::take(&mut *c.borrow_mut()))
}

fn install_observer() {
    librqbit_utp::verif_hooks::set_observer(Some(Box::new(|ev: &str| {
        let t_us = T0.with(|t| t.get()).map(|t0| (tokio::time::Instant::now() - t0).as_micros() as u64).unwrap_or(0);
        let mut e = ConnEvent { ord: app::next_ord(), t_us, kind: String::new(), remote: String::new(), id: 0, state: String::new(), error: String::new(), buf: (0, 0, 0) };
        let mut it = ev.splitn(2, ' ');
        e.kind = it.next().unwrap_or("").to_string();
        let rest = it.next().unwrap_or("");
        // key=value pairs; `error=` is last and may contain spaces
        let (head, err) = match rest.find(" error=") { Some(i) => (&rest[..i], &rest[i + 7..]), None => (rest, "") };
        e.error = err.to_string();
        for kv in head.split(' ') {
            if let Some((k, v)) = kv.split_once('=') {
                match k { "remote" => e.remote = v.to_string(), "id" => e.id = v.parse().unwrap_or(0), "state" => e.state = v.to_string(), "rxq" => e.buf.0 = v.parse().unwrap_or(0), "ooq_msgs" => e.buf.1 = v.parse().unwrap_or(0), "ooq_bytes" => e.buf.2 = v.parse().unwrap_or(0), _ => {} }
            }
        }
        CONN_EVENTS.with(|c| c.borrow_mut().push(e));
    })));
}

thread_local! {
    /// set when the simulator detected a spin at one virtual instant
    pub static WEDGE: Cell<bool> = const { Cell::new(false) };
    static NOW_CALLS: Cell<(u64, u32)> = const { Cell::new((0, 0)) };
}

pub fn take_wedge() -> bool {
    WEDGE.with(|w| w.replace(false))
}

const SPIN_LIMIT: u32 = 2_000_000;

impl Net {
    pub fn new(plan: NetPlan, trace: bool) -> Net {
        let _ = take_wedge();
        app::reset_ord();
        let _ = take_conn_events();
        T0.with(|t| t.set(Some(tokio::time::Instant::now())));
        install_observer();
        NOW_CALLS.with(|c| c.set((0, 0)));
        Net {
            inner: Arc::new(Mutex::new(NetInner {
                t0: tokio::time::Instant::now(),
                log: vec![],
                nodes: BTreeMap::new(),
                plan,
                fate_cursor: 0,
                seq_counter: 0,
                drops_by_identity: BTreeMap::new(),
                syns: BTreeMap::new(),
                talked: BTreeSet::new(),
                first_data_seen: BTreeSet::new(),
                preds: Default::default(),
                cut: false,
                cut_dirs: BTreeSet::new(),
                sends_this_instant: (0, 0),
                excluded: 0,
                protect: vec![],
                fates_overridden_by_fairness: 0,
                dropped_count: 0,
                trace,
            })),
        }
    }

    pub fn now_us(&self) -> u64 {
        let g = self.inner.lock();
        (tokio::time::Instant::now() - g.t0).as_micros() as u64
    }

    /// Install a guard (several may be installed): datagrams for which any guard returns true are
    /// never faulted (counted).
    pub fn set_protect(&self, f: impl FnMut(&WireRec, &[WireRec]) -> bool + Send + 'static) {
        self.inner.lock().protect.push(Box::new(f));
    }

    pub fn add_socket(&self, idx: usize, cfg: &SockCfg) -> SimTransport {
        let a = addr(cfg.v6, idx);
        let notify = Arc::new(Notify::new());
        self.inner.lock().nodes.insert(
            a,
            Node {
                queue: BTreeMap::new(),
                notify: notify.clone(),
                max_datagram: cfg.max_datagram(),
                emsgsize_above: cfg.emsgsize_above.map(|x| x as usize),
                scripted: false,
                pending_sends: 0,
            },
        );
        SimTransport { net: self.clone(), addr: a, notify }
    }

    pub fn add_scripted(&self, a: SocketAddr) {
        self.inner.lock().nodes.insert(
            a,
            Node { queue: BTreeMap::new(), notify: Arc::new(Notify::new()), max_datagram: usize::MAX, emsgsize_above: None, scripted: true, pending_sends: 0 },
        );
    }

    pub fn set_cut(&self, cut: bool) {
        self.inner.lock().cut = cut;
    }
    pub fn cut_direction(&self, src: SocketAddr, dst: SocketAddr) {
        self.inner.lock().cut_dirs.insert((src, dst));
    }
    pub fn heal_direction(&self, src: SocketAddr, dst: SocketAddr) {
        self.inner.lock().cut_dirs.remove(&(src, dst));
    }
    pub fn make_sends_pending(&self, a: SocketAddr, n: u32) {
        if let Some(node) = self.inner.lock().nodes.get_mut(&a) {
            node.pending_sends += n;
        }
    }

    pub fn log_len(&self) -> usize {
        self.inner.lock().log.len()
    }
    pub fn log(&self) -> Vec<WireRec> {
        self.inner.lock().log.clone()
    }
    pub fn with_log<R>(&self, f: impl FnOnce(&[WireRec]) -> R) -> R {
        f(&self.inner.lock().log)
    }
    pub fn predicates(&self) -> WirePredicates {
        self.inner.lock().preds.clone()
    }
    pub fn excluded(&self) -> u64 {
        self.inner.lock().excluded
    }
    pub fn dropped_count(&self) -> u64 {
        self.inner.lock().dropped_count
    }
    pub fn fairness_overrides(&self) -> u64 {
        self.inner.lock().fates_overridden_by_fairness
    }

    /// Inject a datagram "from" a scripted address straight into `dst`'s receive queue at the
    /// current instant (+ `delay_us`). Logged with from_stack = false.
    pub fn inject(&self, src: SocketAddr, dst: SocketAddr, bytes: Vec<u8>, delay_us: u64) {
        let mut g = self.inner.lock();
        let t = (tokio::time::Instant::now() - g.t0).as_micros() as u64;
        let pkt = refparse::parse_message(&bytes).ok();
        if let Some(p) = &pkt {
            if p.ptype == refparse::ST_SYN {
                g.syns.insert((src, dst, p.conn_id), p.seq);
            } else if g.syns.contains_key(&(src, dst, p.conn_id.wrapping_sub(1))) {
                g.talked.insert((src, dst, p.conn_id.wrapping_sub(1)));
            }
        }
        let idx = g.log.len();
        let due = t + delay_us;
        let rec = WireRec { idx, ord: app::next_ord(), t_us: t, src, dst, bytes: bytes.clone(), pkt, disp: Disposition::Deliver(vec![due]), from_stack: false };
        if g.trace {
            println!("{}", rec.line());
        }
        g.log.push(rec);
        g.seq_counter += 1;
        let sc = g.seq_counter;
        if let Some(n) = g.nodes.get_mut(&dst) {
            n.queue.insert((due, sc), (src, bytes));
            n.notify.notify_one();
        }
    }

    fn send(&self, src: SocketAddr, dst: SocketAddr, bytes: &[u8]) -> std::io::Result<usize> {
        let mut g = self.inner.lock();
        let g = &mut *g;
        let t = (tokio::time::Instant::now() - g.t0).as_micros() as u64;
        // spin detection
        if g.sends_this_instant.0 == t {
            g.sends_this_instant.1 += 1;
            if g.sends_this_instant.1 > 200_000 {
                WEDGE.with(|w| w.set(true));
                panic!("simulator: more than 200000 datagrams emitted at one virtual instant (wedge)");
            }
        } else {
            g.sends_this_instant = (t, 1);
        }
        let idx = g.log.len();
        let pkt_hdr = refparse::parse_message(bytes);
        let (max_datagram, emsg) = g.nodes.get(&src).map(|n| (n.max_datagram, n.emsgsize_above)).unwrap_or((usize::MAX, None));

        // --- global wire predicates (owned by C11 / C14; evaluated in every run)
        match &pkt_hdr {
            Err(e) => g.preds.malformed.push((idx, format!("emitted datagram rejected by the reference parser: {e:?}; bytes {:02x?}", &bytes[..bytes.len().min(48)]))),
            Ok(p) => {
                if p.ptype == refparse::ST_SYN {
                    g.syns.insert((src, dst, p.conn_id), p.seq);
                } else {
                    let as_initiator = g.syns.contains_key(&(src, dst, p.conn_id.wrapping_sub(1)));
                    if as_initiator {
                        g.talked.insert((src, dst, p.conn_id.wrapping_sub(1)));
                    }
                    let ok = as_initiator || g.syns.contains_key(&(dst, src, p.conn_id));
                    if !ok {
                        g.preds.malformed.push((idx, format!("datagram {} from {} to {} carries connection id {} which no SYN between the two addresses justifies", p.short(), src, dst, p.conn_id)));
                    }
                }
            }
        }
        if bytes.len() > max_datagram {
            g.preds.oversize.push((idx, format!("datagram of {} bytes emitted by {} whose link MTU allows at most {}", bytes.len(), src, max_datagram)));
        }

        let pkt = pkt_hdr.ok();
        let mut rec = WireRec { idx, ord: app::next_ord(), t_us: t, src, dst, bytes: bytes.to_vec(), pkt, disp: Disposition::Deliver(vec![]), from_stack: true };

        if emsg.is_some_and(|lim| bytes.len() > lim) {
            rec.disp = Disposition::Emsgsize;
            if g.trace {
                println!("{}", rec.line());
            }
            g.log.push(rec);
            return Err(std::io::Error::from_raw_os_error(libc::EMSGSIZE));
        }

        // --- fate
        let lower_to_higher = src < dst;
        let lat_ms = if lower_to_higher { g.plan.lat_ms.0 } else { g.plan.lat_ms.1 } as u64;
        let path_mtu = if lower_to_higher { g.plan.path_mtu.0 } else { g.plan.path_mtu.1 };
        let ip_udp = if src.is_ipv4() { 28 } else { 48 };
        // handshake = SYN, SYN-ACK and the initiator's first data packet (from which the acceptor
        // learns that the SYN-ACK arrived; `connect` does not retransmit SYNs by design)
        let mut first_data_key = None;
        let is_handshake = rec.pkt.as_ref().is_some_and(|p| {
            p.ptype == refparse::ST_SYN
                || (p.ptype == refparse::ST_STATE
                    && g.syns.get(&(dst, src, p.conn_id)) == Some(&p.ack)
                    && !g.first_data_seen.contains(&(dst, src, p.conn_id)))
                || (p.ptype == refparse::ST_DATA
                    && g.syns.get(&(src, dst, p.conn_id.wrapping_sub(1))).is_some_and(|s| s.wrapping_add(1) == p.seq)
                    && !g.first_data_seen.contains(&(src, dst, p.conn_id.wrapping_sub(1))))
        });
        if let Some(p) = &rec.pkt {
            if p.ptype == refparse::ST_DATA && g.syns.get(&(src, dst, p.conn_id.wrapping_sub(1))).is_some_and(|s| s.wrapping_add(1) == p.seq) {
                first_data_key = Some((src, dst, p.conn_id.wrapping_sub(1)));
            }
        }
        let mut fate = Fate::Deliver;
        let mut drop_reason: Option<&'static str> = None;

        if g.cut || g.cut_dirs.contains(&(src, dst)) || g.plan.cut_at.is_some_and(|c| idx as u32 >= c) {
            drop_reason = Some("cut");
        } else if path_mtu.is_some_and(|m| bytes.len() + ip_udp > m as usize) {
            drop_reason = Some("blackhole");
        } else if !matches!(g.plan.family, Family::LossFree) {
            let faultable = !(is_handshake && matches!(g.plan.family, Family::FairLossy { .. }));
            if faultable {
                fate = g.plan.fates.get(g.fate_cursor).copied().unwrap_or(Fate::Deliver);
                g.fate_cursor += 1;
                if fate != Fate::Deliver {
                    let mut protected = false;
                    for p in g.protect.iter_mut() {
                        // (every guard sees every faulted datagram so that its incremental state stays current)
                        if p(&rec, &g.log) {
                            protected = true;
                        }
                    }
                    if protected {
                        g.excluded += 1;
                        fate = Fate::Deliver;
                    }
                }
                if let (Fate::Drop, Family::FairLossy { k }) = (fate, g.plan.family) {
                    let id = identity(&rec);
                    let c = g.drops_by_identity.entry(id).or_insert(0);
                    if *c >= k {
                        fate = Fate::Deliver;
                        g.fates_overridden_by_fairness += 1;
                    } else {
                        *c += 1;
                    }
                }
                if fate == Fate::Drop {
                    drop_reason = Some("plan");
                }
            }
        }

        if let Some(r) = drop_reason {
            rec.disp = Disposition::Dropped(r);
            g.dropped_count += 1;
        } else {
            let base = t + lat_ms * 1000;
            let dues = match fate {
                Fate::Deliver | Fate::Drop => vec![base],
                Fate::Delay(ms) => vec![base + ms as u64 * 1000],
                Fate::Dup(ms) => vec![base, base + ms as u64 * 1000],
            };
            if let Some(n) = g.nodes.get_mut(&dst) {
                if !n.scripted {
                    for d in &dues {
                        g.seq_counter += 1;
                        n.queue.insert((*d, g.seq_counter), (src, bytes.to_vec()));
                    }
                    n.notify.notify_one();
                }
                rec.disp = Disposition::Deliver(dues);
            } else {
                rec.disp = Disposition::Dropped("no-route");
            }
        }
        if let Some(k) = first_data_key {
            if rec.delivered() {
                g.first_data_seen.insert(k);
            }
        }
        if g.trace {
            println!("{}", rec.line());
        }
        g.log.push(rec);
        Ok(bytes.len())
    }
}

fn identity(rec: &WireRec) -> Vec<u8> {
    let mut v = Vec::with_capacity(40);
    v.extend_from_slice(rec.src.to_string().as_bytes());
    v.extend_from_slice(rec.dst.to_string().as_bytes());
    match &rec.pkt {
        None => v.extend_from_slice(&rec.bytes),
        Some(p) => {
            v.push(p.ptype);
            v.extend_from_slice(&p.conn_id.to_be_bytes());
            match p.ptype {
                refparse::ST_STATE | refparse::ST_RESET => {
                    // coarse identity for pure acknowledgements: (direction, connection, ack_nr).
                    // Window and SACK content are ignored, which makes the network *fairer* than
                    // the property requires (a subset of its domain, hence sound).
                    v.extend_from_slice(&p.ack.to_be_bytes());
                }
                _ => v.extend_from_slice(&p.seq.to_be_bytes()),
            }
        }
    }
    v
}

// ------------------------------------------------------------------------------------------

#[derive(Clone)]
pub struct SimTransport {
    net: Net,
    addr: SocketAddr,
    notify: Arc<Notify>,
}

impl SimTransport {
    fn try_pop(&self) -> Result<(SocketAddr, Vec<u8>), Option<u64>> {
        let mut g = self.net.inner.lock();
        let now = (tokio::time::Instant::now() - g.t0).as_micros() as u64;
        let node = g.nodes.get_mut(&self.addr).unwrap();
        match node.queue.first_key_value() {
            Some((&(due, _), _)) if due <= now => {
                let (_, v) = node.queue.pop_first().unwrap();
                Ok(v)
            }
            Some((&(due, _), _)) => Err(Some(due - now)),
            None => Err(None),
        }
    }

    fn do_poll_send(&self, cx: &mut Context<'_>, bytes: &[u8], target: SocketAddr) -> Poll<std::io::Result<usize>> {
        {
            let mut g = self.net.inner.lock();
            if let Some(n) = g.nodes.get_mut(&self.addr) {
                if n.pending_sends > 0 {
                    n.pending_sends -= 1;
                    // transport back-pressure: writable again right away
                    cx.waker().wake_by_ref();
                    return Poll::Pending;
                }
            }
        }
        Poll::Ready(self.net.send(self.addr, target, bytes))
    }
}

impl Transport for SimTransport {
    fn recv_from<'a>(&'a self, buf: &'a mut [u8]) -> impl Future<Output = std::io::Result<(usize, SocketAddr)>> + Send + Sync + 'a {
        async move {
            loop {
                // register interest before checking, so that a concurrent insert is not lost
                let notified = self.notify.notified();
                match self.try_pop() {
                    Ok((src, data)) => {
                        let n = data.len().min(buf.len());
                        buf[..n].copy_from_slice(&data[..n]);
                        return Ok((n, src));
                    }
                    Err(Some(wait_us)) => {
                        tokio::select! {
                            biased;
                            _ = notified => {}
                            _ = tokio::time::sleep(Duration::from_micros(wait_us)) => {}
                        }
                    }
                    Err(None) => notified.await,
                }
            }
        }
    }

    fn send_to<'a>(&'a self, buf: &'a [u8], target: SocketAddr) -> impl Future<Output = std::io::Result<usize>> + Send + Sync + 'a {
        async move { self.net.send(self.addr, target, buf) }
    }

    fn poll_send_to(&self, cx: &mut Context<'_>, buf: &[u8], target: SocketAddr) -> Poll<std::io::Result<usize>> {
        self.do_poll_send(cx, buf, target)
    }

    fn bind_addr(&self) -> SocketAddr {
        self.addr
    }
}

impl PollSendToVectored for SimTransport {
    fn poll_send_to_vectored(&self, cx: &mut Context<'_>, bufs: &[std::io::IoSlice<'_>], target: SocketAddr) -> Poll<std::io::Result<usize>> {
        let mut buf = Vec::with_capacity(bufs.iter().map(|b| b.len()).sum());
        bufs.iter().for_each(|b| buf.extend_from_slice(b));
        self.do_poll_send(cx, &buf, target)
    }
}

// ------------------------------------------------------------------------------------------

pub struct SimEnv {
    rnd: Arc<Mutex<(Vec<u16>, usize, u16)>>,
}

impl SimEnv {
    pub fn new(stream: Vec<u16>) -> Self {
        SimEnv { rnd: Arc::new(Mutex::new((stream, 0, 0x1234))) }
    }
}

impl UtpEnvironment for SimEnv {
    fn now(&self) -> std::time::Instant {
        let now = tokio::time::Instant::now();
        // spin detection: an unbounded number of polls at one virtual instant is a wedge
        let key = now.into_std();
        NOW_CALLS.with(|c| {
            let (last, n) = c.get();
            let k = {
                use std::hash::{Hash, Hasher};
                let mut h = std::collections::hash_map::DefaultHasher::new();
                key.hash(&mut h);
                h.finish()
            };
            if last == k {
                if n > SPIN_LIMIT {
                    WEDGE.with(|w| w.set(true));
                    c.set((k, 0));
                    panic!("simulator: clock read more than {SPIN_LIMIT} times at one virtual instant (wedge)");
                }
                c.set((k, n + 1));
            } else {
                c.set((k, 1));
            }
        });
        key
    }

    fn copy(&self) -> Self {
        SimEnv { rnd: self.rnd.clone() }
    }

    fn random_u16(&self) -> u16 {
        let mut g = self.rnd.lock();
        let (ref v, ref mut i, ref mut last) = *g;
        let r = if *i < v.len() {
            v[*i]
        } else {
            // deterministic continuation
            last.wrapping_mul(25173).wrapping_add(13849)
        };
        *i += 1;
        *last = r;
        r
    }
}

// ------------------------------------------------------------------------------------------

/// Build a current-thread runtime with a paused clock and a fixed RNG seed and run `f` on it.
pub fn run_sim<F: Future>(f: F) -> F::Output {
    let rt = tokio::runtime::Builder::new_current_thread()
        .enable_time()
        .start_paused(true)
        .rng_seed(tokio::runtime::RngSeed::from_bytes(b"utpverif-fixed-seed"))
        .build()
        .expect("runtime");
    let out = rt.block_on(f);
    // dropping the runtime drops every remaining task (library tasks included)
    drop(rt);
    out
}

pub fn new_socket(net: &Net, idx: usize, cfg: &SockCfg) -> (Arc<Sock>, tokio_util::sync::CancellationToken) {
    let token = tokio_util::sync::CancellationToken::new();
    let tr = net.add_socket(idx, cfg);
    let env = SimEnv::new(cfg.rnd.clone());
    let s = UtpSocket::new_with_opts(tr, env, cfg.opts(token.clone())).expect("socket options are generated valid");
    (s, token)
}
