//! MC engine: many connect / accept calls on a few sockets over the simulated network, with an
//! application-level token protocol that identifies which accepted stream is wired to which connect
//! call (used by C12 and C13).
//!
//! Every connector writes an 8-byte token naming its plan, then its keyed payload; the acceptor reads
//! the token, answers with the plan's reverse payload and verifies what it reads.
use std::sync::Arc;
use std::time::Duration;

use parking_lot::Mutex;
use serde::{Deserialize, Serialize};
use tokio::io::{AsyncReadExt, AsyncWriteExt};

use super::{ConnEvent, Net, NetPlan, SockCfg, WireRec, addr, app::Stream, new_socket, run_sim};

#[derive(Clone, Debug, Serialize, Deserialize)]
pub struct McConn {
    pub from: usize,
    pub to: usize,
    pub at_ms: u32,
    /// abandon the connect call (drop its future) after this long
    pub patience_ms: Option<u32>,
    pub n_a: u32,
    pub n_b: u32,
    /// keep the stream open this long after the exchange
    pub hold_ms: u32,
    pub key: u64,
}

#[derive(Clone, Debug, Serialize, Deserialize)]
pub struct McAccept {
    pub sock: usize,
    pub at_ms: u32,
    /// abandon the accept call (drop its future) after this long
    pub patience_ms: Option<u32>,
}

#[derive(Clone, Debug, Serialize, Deserialize)]
pub enum McEvent {
    /// re-inject a copy of the n-th SYN of the wire log (by fraction) into its destination
    DupSyn(u16),
    /// `n` SYNs from distinct unbound addresses (nobody answers there) to socket `to`
    GhostSyns { to: usize, n: u8, id0: u16 },
    CutDir { from: usize, to: usize },
    HealDir { from: usize, to: usize },
    Cancel(usize),
}

#[derive(Clone, Debug, Serialize, Deserialize)]
pub struct McCase {
    pub socks: Vec<SockCfg>,
    pub net: NetPlan,
    pub conns: Vec<McConn>,
    pub accepts: Vec<McAccept>,
    pub events: Vec<(u32, McEvent)>,
    pub end_ms: u32,
}

#[derive(Clone, Debug, Default, PartialEq)]
pub enum CallOut {
    #[default]
    NotCalled,
    Pending,
    Ok(u64),
    Err(u64, String),
    Abandoned(u64),
}

#[derive(Clone, Debug, Default)]
pub struct StreamOut {
    pub wrote: u64,
    pub write_err: Option<String>,
    pub read_ok: u64,
    pub bad_at: Option<u64>,
    pub read_err: Option<String>,
    /// all expected bytes were read and verified
    pub complete_at_us: Option<u64>,
    pub eof: bool,
    pub extra_bytes: u64,
    pub closed_at_us: Option<u64>,
}

#[derive(Clone, Debug, Default)]
pub struct ConnOut {
    pub call_at_us: u64,
    pub out: CallOut,
    pub stream: StreamOut,
}

#[derive(Clone, Debug, Default)]
pub struct AccOut {
    pub call_at_us: u64,
    pub out: CallOut,
    pub remote: Option<std::net::SocketAddr>,
    /// plan index named by the token this stream delivered first (None: no/garbled token in time)
    pub token: Option<usize>,
    pub token_garbled: bool,
    pub stream: StreamOut,
}

#[derive(Clone, Debug, Default)]
pub struct McResult {
    pub log: Vec<WireRec>,
    pub conns: Vec<ConnOut>,
    pub accs: Vec<AccOut>,
    pub conn_events: Vec<ConnEvent>,
    pub addrs: Vec<std::net::SocketAddr>,
    pub t_end_us: u64,
    pub wedge: bool,
    pub excluded: u64,
    pub preds: super::WirePredicates,
}

pub const TOKEN_LEN: usize = 8;
pub const TOKEN_PATIENCE_MS: u64 = 4_000;
pub const IO_PATIENCE_MS: u64 = 120_000;

pub fn token(ci: usize, key: u64) -> [u8; TOKEN_LEN] {
    let mut t = [0u8; TOKEN_LEN];
    t[0] = 0xC0;
    t[1] = 0xDE;
    t[2..4].copy_from_slice(&(ci as u16).to_be_bytes());
    t[4..8].copy_from_slice(&(key as u32).to_be_bytes());
    t
}

pub fn ghost_addr(v6: bool, i: usize) -> std::net::SocketAddr {
    addr(v6, 100 + i)
}

struct Sh {
    conns: Mutex<Vec<ConnOut>>,
    accs: Mutex<Vec<AccOut>>,
}

fn now_us(t0: tokio::time::Instant) -> u64 {
    (tokio::time::Instant::now() - t0).as_micros() as u64
}

/// after the token: write `n_w` keyed bytes, read and verify `n_r`, hold, shutdown, read to end, drop
pub async fn exchange(halves: (librqbit_utp::UtpStreamReadHalf, librqbit_utp::UtpStreamWriteHalf), pre: Option<[u8; TOKEN_LEN]>, ws: Stream, n_w: u32, rs: Stream, n_r: u32, hold_ms: u32, t0: tokio::time::Instant, upd: impl Fn(&dyn Fn(&mut StreamOut))) {
    let (mut r, mut w) = halves;
    let io = async {
        // write
        let mut buf = vec![0u8; 4096];
        if let Some(t) = pre {
            if let Err(e) = w.write_all(&t).await {
                upd(&|s| s.write_err = Some(e.to_string()));
                return;
            }
        }
        let mut off = 0u64;
        while off < n_w as u64 {
            let k = ((n_w as u64 - off) as usize).min(buf.len());
            ws.fill(off, &mut buf[..k]);
            match w.write_all(&buf[..k]).await {
                Ok(()) => {
                    off += k as u64;
                    upd(&|s| s.wrote = off);
                }
                Err(e) => {
                    upd(&|s| s.write_err = Some(e.to_string()));
                    return;
                }
            }
        }
        // read
        let mut got = 0u64;
        while got < n_r as u64 {
            let k = ((n_r as u64 - got) as usize).min(buf.len());
            match r.read(&mut buf[..k]).await {
                Ok(0) => {
                    upd(&|s| s.eof = true);
                    return;
                }
                Ok(k) => {
                    let bad = rs.mismatch(got, &buf[..k]).map(|i| got + i as u64);
                    got += k as u64;
                    upd(&|s| {
                        if s.bad_at.is_none() {
                            s.bad_at = bad;
                        }
                        s.read_ok = got;
                    });
                }
                Err(e) => {
                    upd(&|s| s.read_err = Some(e.to_string()));
                    return;
                }
            }
        }
        let t = now_us(t0);
        upd(&|s| s.complete_at_us = Some(t));
        tokio::time::sleep(Duration::from_millis(hold_ms as u64)).await;
        let _ = tokio::time::timeout(Duration::from_millis(30_000), w.shutdown()).await;
        // anything more the peer sends is not ours
        let mut extra = 0u64;
        loop {
            match tokio::time::timeout(Duration::from_millis(30_000), r.read(&mut buf)).await {
                Ok(Ok(0)) => {
                    upd(&|s| s.eof = true);
                    break;
                }
                Ok(Ok(k)) => {
                    extra += k as u64;
                    upd(&|s| s.extra_bytes = extra);
                }
                _ => break,
            }
        }
    };
    let _ = tokio::time::timeout(Duration::from_millis(IO_PATIENCE_MS), io).await;
    drop(r);
    drop(w);
    let t = now_us(t0);
    upd(&|s| s.closed_at_us = Some(t));
}

pub fn run(case: &McCase, trace: bool) -> McResult {
    run_with(case, trace, |_| {})
}

/// `setup` may install guards on the network before anything is sent.
pub fn run_with(case: &McCase, trace: bool, setup: impl FnOnce(&Net)) -> McResult {
    let case = case.clone();
    run_sim(async move {
        let t0 = tokio::time::Instant::now();
        let net = Net::new(case.net.clone(), trace);
        setup(&net);
        let mut socks = vec![];
        for (i, c) in case.socks.iter().enumerate() {
            socks.push(new_socket(&net, i, c));
        }
        let v6 = case.socks[0].v6;
        let addrs: Vec<_> = case.socks.iter().enumerate().map(|(i, c)| addr(c.v6, i)).collect();
        let sh = Arc::new(Sh { conns: Mutex::new(vec![ConnOut::default(); case.conns.len()]), accs: Mutex::new(vec![AccOut::default(); case.accepts.len()]) });
        let case = Arc::new(case);

        // accept calls: one harness task per socket issues them at their instants, in (at_ms, index) order;
        // each call then lives in its own task
        for si in 0..socks.len() {
            let mut mine: Vec<usize> = (0..case.accepts.len()).filter(|k| case.accepts[*k].sock == si).collect();
            mine.sort_by_key(|k| (case.accepts[*k].at_ms, *k));
            for k in mine {
                let sock = socks[si].0.clone();
                let sh2 = sh.clone();
                let case2 = case.clone();
                tokio::spawn(async move {
                    let a = case2.accepts[k].clone();
                    tokio::time::sleep(Duration::from_millis(a.at_ms as u64)).await;
                    {
                        let mut g = sh2.accs.lock();
                        g[k].call_at_us = now_us(t0);
                        g[k].out = CallOut::Pending;
                    }
                    let res = match a.patience_ms {
                        Some(p) => match tokio::time::timeout(Duration::from_millis(p as u64), sock.accept()).await {
                            Ok(r) => Some(r),
                            Err(_) => None,
                        },
                        None => Some(sock.accept().await),
                    };
                    let t = now_us(t0);
                    let stream = match res {
                        None => {
                            sh2.accs.lock()[k].out = CallOut::Abandoned(t);
                            return;
                        }
                        Some(Err(e)) => {
                            sh2.accs.lock()[k].out = CallOut::Err(t, format!("{e:?}: {e}"));
                            return;
                        }
                        Some(Ok(s)) => s,
                    };
                    {
                        let mut g = sh2.accs.lock();
                        g[k].out = CallOut::Ok(t);
                        g[k].remote = Some(stream.remote_addr());
                    }
                    if trace {
                        println!("        accept #{k} on socket {} -> stream from {} at t={:.3}ms", a.sock, stream.remote_addr(), t as f64 / 1000.0);
                    }
                    // token
                    let (mut r, w) = stream.split();
                    let mut tok = [0u8; TOKEN_LEN];
                    let got = tokio::time::timeout(Duration::from_millis(TOKEN_PATIENCE_MS), r.read_exact(&mut tok)).await;
                    let ci = match got {
                        Ok(Ok(_)) if tok[0] == 0xC0 && tok[1] == 0xDE => {
                            let ci = u16::from_be_bytes([tok[2], tok[3]]) as usize;
                            if ci < case2.conns.len() && token(ci, case2.conns[ci].key) == tok { Some(ci) } else { None }
                        }
                        _ => None,
                    };
                    if trace {
                        println!("        accept #{k}: token {:?} -> plan {:?} at t={:.3}ms", tok, ci, now_us(t0) as f64 / 1000.0);
                    }
                    let Some(ci) = ci else {
                        let mut g = sh2.accs.lock();
                        g[k].token_garbled = matches!(got, Ok(Ok(_)));
                        g[k].stream.closed_at_us = Some(now_us(t0));
                        return;
                    };
                    sh2.accs.lock()[k].token = Some(ci);
                    let c = case2.conns[ci].clone();
                    let sh3 = sh2.clone();
                    exchange((r, w), None, Stream::new(c.key, 1), c.n_b, Stream::new(c.key, 0), c.n_a, c.hold_ms, t0, move |f| f(&mut sh3.accs.lock()[k].stream)).await;
                });
            }
        }
        // connect calls
        for ci in 0..case.conns.len() {
            let c = case.conns[ci].clone();
            let sock = socks[c.from].0.clone();
            let to = addrs[c.to];
            let sh2 = sh.clone();
            tokio::spawn(async move {
                tokio::time::sleep(Duration::from_millis(c.at_ms as u64)).await;
                {
                    let mut g = sh2.conns.lock();
                    g[ci].call_at_us = now_us(t0);
                    g[ci].out = CallOut::Pending;
                }
                let res = match c.patience_ms {
                    Some(p) => match tokio::time::timeout(Duration::from_millis(p as u64), sock.connect(to)).await {
                        Ok(r) => Some(r),
                        Err(_) => None,
                    },
                    None => Some(sock.connect(to).await),
                };
                let t = now_us(t0);
                let stream = match res {
                    None => {
                        sh2.conns.lock()[ci].out = CallOut::Abandoned(t);
                        return;
                    }
                    Some(Err(e)) => {
                        if trace {
                            println!("        connect #{ci} failed at t={:.3}ms: {e}", t as f64 / 1000.0);
                        }
                        sh2.conns.lock()[ci].out = CallOut::Err(t, format!("{e:?}: {e}"));
                        return;
                    }
                    Some(Ok(s)) => s,
                };
                if trace {
                    println!("        connect #{ci} ok at t={:.3}ms", t as f64 / 1000.0);
                }
                sh2.conns.lock()[ci].out = CallOut::Ok(t);
                let sh3 = sh2.clone();
                exchange(stream.split(), Some(token(ci, c.key)), Stream::new(c.key, 0), c.n_a, Stream::new(c.key, 1), c.n_b, c.hold_ms, t0, move |f| f(&mut sh3.conns.lock()[ci].stream)).await;
            });
        }
        // events
        let mut events = case.events.clone();
        events.sort_by_key(|e| e.0);
        let mut ghost_n = 0usize;
        for (at, ev) in events {
            let now = now_us(t0);
            let te = at as u64 * 1000;
            if te > now {
                tokio::time::sleep(Duration::from_micros(te - now)).await;
            }
            if trace {
                println!("        event t={:.3}ms {:?}", now_us(t0) as f64 / 1000.0, ev);
            }
            match ev {
                McEvent::DupSyn(f) => {
                    let pick = net.with_log(|log| {
                        let c: Vec<&WireRec> = log.iter().filter(|r| r.from_stack && r.pkt.as_ref().is_some_and(|p| p.ptype == crate::model::refparse::ST_SYN)).collect();
                        if c.is_empty() { None } else { let r = c[crate::engine::pick_idx(f, c.len())]; Some((r.src, r.dst, r.bytes.clone())) }
                    });
                    if let Some((src, dst, bytes)) = pick {
                        net.inject(src, dst, bytes, 0);
                    }
                }
                McEvent::GhostSyns { to, n, id0 } => {
                    for j in 0..n {
                        let src = ghost_addr(v6, ghost_n);
                        ghost_n += 1;
                        let pkt = crate::model::refparse::RefPacket { ptype: crate::model::refparse::ST_SYN, version: 1, conn_id: id0.wrapping_add(2 * j as u16), seq: 1000u16.wrapping_add(j as u16), ack: 0, wnd: 0, ts: 1, ts_diff: 0, exts: vec![], payload: vec![] };
                        net.inject(src, addrs[to], crate::model::refparse::encode(&pkt), 0);
                    }
                }
                McEvent::CutDir { from, to } => net.cut_direction(addrs[from], addrs[to]),
                McEvent::HealDir { from, to } => net.heal_direction(addrs[from], addrs[to]),
                McEvent::Cancel(s) => socks[s].1.cancel(),
            }
        }
        let now = now_us(t0);
        let te = case.end_ms as u64 * 1000;
        if te > now {
            tokio::time::sleep(Duration::from_micros(te - now)).await;
        }
        let t_end_us = now_us(t0);
        McResult { log: net.log(), conns: sh.conns.lock().clone(), accs: sh.accs.lock().clone(), conn_events: super::take_conn_events(), addrs, t_end_us, wedge: super::take_wedge(), excluded: net.excluded(), preds: net.predicates() }
    })
}
