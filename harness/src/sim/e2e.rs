//! E2E engine: two or more real `UtpSocket`s over the simulated network, application scripts
//! on each stream, public API only.

use std::{
    collections::BTreeMap,
    sync::{
        Arc,
        atomic::{AtomicI64, Ordering},
    },
    time::Duration,
};

use parking_lot::Mutex;
use serde::{Deserialize, Serialize};

use super::{
    Net, NetPlan, Sock, SockCfg, WirePredicates, WireRec, addr,
    app::{EndpointLog, ROp, SharedLog, Stream, WOp, run_reader, run_writer, script_chan},
    new_socket, run_sim, take_wedge,
};

#[derive(Clone, Debug, Serialize, Deserialize)]
pub struct ConnPlan {
    pub from: usize,
    pub to: usize,
    pub start_ms: u32,
    pub key: u64,
    /// connector side
    pub a_w: Vec<WOp>,
    pub a_r: Vec<ROp>,
    /// acceptor side
    pub b_w: Vec<WOp>,
    pub b_r: Vec<ROp>,
}

#[derive(Clone, Debug, Serialize, Deserialize)]
pub enum Event {
    /// drop everything from now on
    Cut,
    Heal,
    /// drop everything sent by socket `from` to socket `to`
    CutDir { from: usize, to: usize },
    /// undo a CutDir
    HealDir { from: usize, to: usize },
    CancelSocket(usize),
    /// make the next n poll_send calls of a socket return Pending
    SendPending { sock: usize, n: u32 },
    /// re-inject a copy of an old (non-SYN) datagram of the wire log, chosen by fraction x/65535,
    /// into its original destination (stale traffic after a connection ended)
    ReplayOld(u16),
    /// like ReplayOld, but chosen among the 12 most recent non-SYN datagrams (traffic of the connections that are
    /// active or closing right now)
    ReplayRecent(u16),
    /// like ReplayRecent, among the 6 most recent non-SYN datagrams addressed to socket `sock`
    ReplayTo { sock: usize, f: u16 },
}

#[derive(Clone, Debug, Serialize, Deserialize)]
pub struct Scenario {
    pub socks: Vec<SockCfg>,
    pub conns: Vec<ConnPlan>,
    pub net: NetPlan,
    pub events: Vec<(u32, Event)>,
    /// virtual-time limit for the application scripts
    pub deadline_ms: u32,
    /// extra virtual time after the scripts finished (or the deadline passed)
    pub linger_ms: u32,
}

#[derive(Clone, Debug, Default)]
pub struct ConnResult {
    pub connect_err: Option<String>,
    pub connected_at_us: Option<u64>,
    pub accepted_at_us: Option<u64>,
    /// [connector side, acceptor side]
    pub ep: [EndpointLog2; 2],
}

/// plain-data copy of `EndpointLog`
pub type EndpointLog2 = EndpointSnapshot;

#[derive(Clone, Debug, Default)]
pub struct EndpointSnapshot {
    pub recs: Vec<super::app::AppRec>,
    pub written: u64,
    pub read: u64,
    pub first_bad_read_at: Option<u64>,
    pub eof: bool,
    pub read_err: Option<String>,
    pub write_err: Option<String>,
    pub writer_done: bool,
    pub reader_done: bool,
    pub sync_points: Vec<(u64, u64, bool)>,
    pub established: bool,
}

fn snap(l: &SharedLog, established: bool) -> EndpointSnapshot {
    let g = l.lock();
    EndpointSnapshot {
        recs: g.recs.clone(),
        written: g.written,
        read: g.read,
        first_bad_read_at: g.first_bad_read_at,
        eof: g.eof,
        read_err: g.read_err.clone(),
        write_err: g.write_err.clone(),
        writer_done: g.writer_done,
        reader_done: g.reader_done,
        sync_points: g.sync_points.clone(),
        established,
    }
}

#[derive(Clone, Debug, Default)]
pub struct RunResult {
    pub log: Vec<WireRec>,
    pub conns: Vec<ConnResult>,
    pub preds: WirePredicates,
    /// all application scripts of all established endpoints finished before the deadline
    pub scripts_done: bool,
    pub scripts_done_at_us: Option<u64>,
    pub t_end_us: u64,
    /// library tasks alive when the scripts were done, and at the very end (after linger)
    pub lib_tasks_at_done: i64,
    pub lib_tasks_at_end: i64,
    pub dropped: u64,
    pub excluded: u64,
    pub fairness_overrides: u64,
    pub wedge: bool,
    pub addrs: Vec<std::net::SocketAddr>,
    pub conn_events: Vec<super::ConnEvent>,
}

struct Shared {
    logs: Mutex<BTreeMap<(usize, usize), (SharedLog, bool)>>, // (conn, side) -> log, established
    conn_meta: Mutex<BTreeMap<usize, (Option<String>, Option<u64>, Option<u64>)>>,
    harness_tasks: AtomicI64,
}

fn spawn_h<F: std::future::Future<Output = ()> + Send + 'static>(sh: &Arc<Shared>, f: F) {
    sh.harness_tasks.fetch_add(1, Ordering::SeqCst);
    let sh2 = sh.clone();
    tokio::spawn(async move {
        f.await;
        sh2.harness_tasks.fetch_sub(1, Ordering::SeqCst);
    });
}

fn lib_tasks(sh: &Arc<Shared>) -> i64 {
    tokio::runtime::Handle::current().metrics().num_alive_tasks() as i64 - sh.harness_tasks.load(Ordering::SeqCst)
}

pub fn run(sc: &Scenario, trace: bool) -> RunResult {
    run_with(sc, trace, |_net| {})
}

/// `setup` may install guards on the network before anything is sent.
pub fn run_with(sc: &Scenario, trace: bool, setup: impl FnOnce(&Net)) -> RunResult {
    let sc = sc.clone();
    run_sim(async move {
        let t0 = tokio::time::Instant::now();
        let net = Net::new(sc.net.clone(), trace);
        setup(&net);
        let mut socks: Vec<(Arc<Sock>, tokio_util::sync::CancellationToken)> = vec![];
        for (i, c) in sc.socks.iter().enumerate() {
            socks.push(new_socket(&net, i, c));
        }
        let addrs: Vec<_> = sc.socks.iter().enumerate().map(|(i, c)| addr(c.v6, i)).collect();
        let sh = Arc::new(Shared { logs: Default::default(), conn_meta: Default::default(), harness_tasks: AtomicI64::new(0) });
        for ci in 0..sc.conns.len() {
            let l0: SharedLog = Arc::new(Mutex::new(EndpointLog::default()));
            let l1: SharedLog = Arc::new(Mutex::new(EndpointLog::default()));
            l0.lock().peer = Some(l1.clone());
            l1.lock().peer = Some(l0.clone());
            sh.logs.lock().insert((ci, 0), (l0, false));
            sh.logs.lock().insert((ci, 1), (l1, false));
        }

        // acceptors: per listening socket, accept as many streams as plans point at it; match
        // accepted streams to plans by remote address in FIFO order of their start time.
        for (si, (sock, _)) in socks.iter().enumerate() {
            let mut expected: Vec<usize> = (0..sc.conns.len()).filter(|ci| sc.conns[*ci].to == si).collect();
            if expected.is_empty() {
                continue;
            }
            expected.sort_by_key(|ci| (sc.conns[*ci].start_ms, *ci));
            let sock = sock.clone();
            let sh2 = sh.clone();
            let sc2 = sc.clone();
            let addrs2 = addrs.clone();
            spawn_h(&sh, async move {
                let mut remaining = expected;
                while !remaining.is_empty() {
                    let stream = match sock.accept().await {
                        Ok(s) => s,
                        Err(_) => break,
                    };
                    let ra = stream.remote_addr();
                    let Some(pos) = remaining.iter().position(|ci| addrs2[sc2.conns[*ci].from] == ra) else { continue };
                    let ci = remaining.remove(pos);
                    let t = (tokio::time::Instant::now() - t0).as_micros() as u64;
                    sh2.conn_meta.lock().entry(ci).or_default().2 = Some(t);
                    let (r, w) = stream.split();
                    let plan = &sc2.conns[ci];
                    let log = {
                        let mut g = sh2.logs.lock();
                        let e = g.get_mut(&(ci, 1)).unwrap();
                        e.1 = true;
                        e.0.clone()
                    };
                    // acceptor writes direction 1, reads direction 0
                    let tag = |s: &'static str| if trace { Some(s) } else { None };
                    spawn_h(&sh2, run_writer(w, script_chan(plan.b_w.clone()), Stream::new(plan.key, 1), log.clone(), t0, tag("B.w"), Default::default()));
                    spawn_h(&sh2, run_reader(r, script_chan(plan.b_r.clone()), Stream::new(plan.key, 0), log, t0, tag("B.r"), Default::default()));
                }
            });
        }
        // connectors
        for (ci, plan) in sc.conns.iter().enumerate() {
            let sock = socks[plan.from].0.clone();
            let to = addrs[plan.to];
            let sh2 = sh.clone();
            let plan = plan.clone();
            spawn_h(&sh, async move {
                tokio::time::sleep(Duration::from_millis(plan.start_ms as u64)).await;
                match sock.connect(to).await {
                    Ok(stream) => {
                        let t = (tokio::time::Instant::now() - t0).as_micros() as u64;
                        sh2.conn_meta.lock().entry(ci).or_default().1 = Some(t);
                        let (r, w) = stream.split();
                        let log = {
                            let mut g = sh2.logs.lock();
                            let e = g.get_mut(&(ci, 0)).unwrap();
                            e.1 = true;
                            e.0.clone()
                        };
                        let tag = |s: &'static str| if trace { Some(s) } else { None };
                        spawn_h(&sh2, run_writer(w, script_chan(plan.a_w.clone()), Stream::new(plan.key, 0), log.clone(), t0, tag("A.w"), Default::default()));
                        spawn_h(&sh2, run_reader(r, script_chan(plan.a_r.clone()), Stream::new(plan.key, 1), log, t0, tag("A.r"), Default::default()));
                    }
                    Err(e) => {
                        sh2.conn_meta.lock().entry(ci).or_default().0 = Some(e.to_string());
                    }
                }
            });
        }

        // main loop: apply events, watch for completion
        let mut events = sc.events.clone();
        events.sort_by_key(|e| e.0);
        let mut ev_i = 0;
        let deadline_us = sc.deadline_ms as u64 * 1000;
        let mut scripts_done = false;
        let mut done_at = None;
        // polling step: 20 ms while things happen, growing to 2 s during long quiet stretches
        let mut step = Duration::from_millis(20);
        let mut last_activity = (0usize, 0usize);
        loop {
            let now = (tokio::time::Instant::now() - t0).as_micros() as u64;
            while ev_i < events.len() && (events[ev_i].0 as u64) * 1000 <= now {
                if trace {
                    println!("        event t={:.3}ms {:?}", now as f64 / 1000.0, events[ev_i].1);
                }
                match &events[ev_i].1 {
                    Event::Cut => net.set_cut(true),
                    Event::Heal => net.set_cut(false),
                    Event::CutDir { from, to } => net.cut_direction(addrs[*from], addrs[*to]),
                    Event::HealDir { from, to } => net.heal_direction(addrs[*from], addrs[*to]),
                    Event::CancelSocket(i) => socks[*i].1.cancel(),
                    Event::SendPending { sock, n } => net.make_sends_pending(addrs[*sock], *n),
                    Event::ReplayTo { sock, f } => {
                        let to = addrs[*sock];
                        let pick = net.with_log(|log| {
                            let c: Vec<&WireRec> = log.iter().rev().filter(|r| r.from_stack && r.dst == to && r.pkt.as_ref().is_some_and(|p| p.ptype != crate::model::refparse::ST_SYN)).take(6).collect();
                            if c.is_empty() { None } else { let r = c[crate::engine::pick_idx(*f, c.len())]; Some((r.src, r.dst, r.bytes.clone())) }
                        });
                        if let Some((src, dst, bytes)) = pick {
                            net.inject(src, dst, bytes, 0);
                        }
                    }
                    Event::ReplayRecent(f) => {
                        let pick = net.with_log(|log| {
                            let c: Vec<&WireRec> = log.iter().rev().filter(|r| r.from_stack && r.pkt.as_ref().is_some_and(|p| p.ptype != crate::model::refparse::ST_SYN)).take(12).collect();
                            if c.is_empty() { None } else { let r = c[crate::engine::pick_idx(*f, c.len())]; Some((r.src, r.dst, r.bytes.clone())) }
                        });
                        if let Some((src, dst, bytes)) = pick {
                            net.inject(src, dst, bytes, 0);
                        }
                    }
                    Event::ReplayOld(f) => {
                        let pick = net.with_log(|log| {
                            let c: Vec<&WireRec> = log.iter().filter(|r| r.from_stack && r.pkt.as_ref().is_some_and(|p| p.ptype != crate::model::refparse::ST_SYN)).collect();
                            if c.is_empty() { None } else { let r = c[crate::engine::pick_idx(*f, c.len())]; Some((r.src, r.dst, r.bytes.clone())) }
                        });
                        if let Some((src, dst, bytes)) = pick {
                            net.inject(src, dst, bytes, 0);
                        }
                    }
                }
                ev_i += 1;
            }
            // completion: every connection either failed to connect, or both its endpoints
            // are established and done
            let all_done = {
                let logs = sh.logs.lock();
                let meta = sh.conn_meta.lock();
                (0..sc.conns.len()).all(|ci| {
                    if meta.get(&ci).is_some_and(|m| m.0.is_some()) {
                        return true;
                    }
                    (0..2).all(|side| {
                        let (l, est) = &logs[&(ci, side)];
                        let g = l.lock();
                        *est && g.writer_done && g.reader_done
                    })
                })
            };
            if all_done && ev_i >= events.len() {
                scripts_done = true;
                done_at = Some(now);
                break;
            }
            if now >= deadline_us {
                break;
            }
            let activity = (net.log_len(), sh.logs.lock().values().map(|(l, _)| l.lock().recs.len()).sum::<usize>());
            if activity != last_activity {
                last_activity = activity;
                step = Duration::from_millis(20);
            } else {
                step = (step * 2).min(Duration::from_millis(2000));
            }
            let mut next = step;
            if ev_i < events.len() {
                let te = (events[ev_i].0 as u64) * 1000;
                if te > now {
                    next = next.min(Duration::from_micros(te - now));
                }
            }
            tokio::time::sleep(next).await;
        }
        let lib_tasks_at_done = lib_tasks(&sh);
        tokio::time::sleep(Duration::from_millis(sc.linger_ms as u64)).await;
        let lib_tasks_at_end = lib_tasks(&sh);
        let t_end_us = (tokio::time::Instant::now() - t0).as_micros() as u64;

        let mut conns = vec![];
        {
            let logs = sh.logs.lock();
            let meta = sh.conn_meta.lock();
            for ci in 0..sc.conns.len() {
                let m = meta.get(&ci).cloned().unwrap_or_default();
                let e0 = &logs[&(ci, 0)];
                let e1 = &logs[&(ci, 1)];
                conns.push(ConnResult { connect_err: m.0, connected_at_us: m.1, accepted_at_us: m.2, ep: [snap(&e0.0, e0.1), snap(&e1.0, e1.1)] });
            }
        }
        // break the reference cycle between the two endpoint logs
        for (_, (l, _)) in sh.logs.lock().iter() {
            l.lock().peer = None;
        }
        RunResult {
            log: net.log(),
            conns,
            preds: net.predicates(),
            scripts_done,
            scripts_done_at_us: done_at,
            t_end_us,
            lib_tasks_at_done,
            lib_tasks_at_end,
            dropped: net.dropped_count(),
            excluded: net.excluded(),
            fairness_overrides: net.fairness_overrides(),
            wedge: take_wedge(),
            addrs,
            conn_events: super::take_conn_events(),
        }
    })
}
