//! SP engine: one real `UtpSocket` against a scripted peer. The harness speaks raw uTP
//! datagrams built with its own encoder and performs the handshake by hand (either direction).
//! Socket <-> peer latency is zero; steps are separated by >= 1 ms of virtual time, and the
//! runtime runs every task to quiescence before the clock advances, so every reaction that
//! needs no timer carries the timestamp of its stimulus.

use std::{collections::BTreeMap, net::SocketAddr, sync::Arc, time::Duration};

use parking_lot::Mutex;
use serde::{Deserialize, Serialize};
use tokio::sync::mpsc::UnboundedSender;

use super::{
    Net, NetPlan, SockCfg, WirePredicates, WireRec, addr,
    app::{AppRec, EndpointLog, ROp, SharedLog, Stream, WOp, run_reader, run_writer},
    new_socket, run_sim, take_wedge,
};
use crate::engine::splitmix64;
use crate::model::{
    refparse::{self, RefPacket},
    seq::dist,
};

#[derive(Clone, Debug, Serialize, Deserialize, PartialEq)]
pub enum PeerOp {
    /// data packet with seq = next_seq + dseq (dseq == 0 advances next_seq); the length of a
    /// seq is fixed the first time it is used
    Data { dseq: i16, len: u16 },
    /// pure ST_STATE: ack_nr = highest seq seen from the socket − back
    Ack { back: i16, wnd: u32, sack: Option<Vec<u8>> },
    /// pure ST_STATE advancing the previous cumulative ack by `adv` packets (clamped to what the
    /// socket has sent)
    AckAdv { adv: u16, wnd: u32, sack: Option<Vec<u8>> },
    /// repeat the last pure ACK unchanged n times (1 ms apart)
    DupAck(u8),
    /// ST_FIN with seq = next_seq + dseq (ack_nr = the peer's last cumulative ack)
    Fin { dseq: i16 },
    /// like Fin, but ack_nr = highest seq seen from the socket (covers the socket's FIN if sent)
    FinAck { dseq: i16 },
    /// ST_RESET; ack_nr = the socket's FIN seq if seen (and ack_fin), else highest seen
    Reset { ack_fin: bool },
    /// duplicate of the peer's SYN (incoming connections)
    SynDup,
    /// arbitrary bytes
    Raw(Vec<u8>),
    /// well-formed packet with explicit fields relative to the connection
    /// (type, seq offset from next_seq, ack offset from highest seen, wnd, sack, conn-id delta, payload len)
    Crafted { ptype: u8, dseq: i16, dack: i16, wnd: u32, sack: Option<Vec<u8>>, did: i8, len: u16 },
    /// honest selective ack: advance the cumulative ack by `adv` (leaving at least one packet missing) and
    /// report `count` packets, `skip` packets beyond the missing one, as held — only packets the socket
    /// really sent. Falls back to a plain ack when fewer than two packets are outstanding.
    SackHeld { adv: u16, skip: u8, count: u8, wnd: u32 },
    /// like Data, but acknowledging everything seen from the socket (its FIN included)
    DataAck { dseq: i16, len: u16 },
    /// like DataAck for the next in-order packet, announcing a new receive window on the same packet (bidirectional
    /// traffic: acknowledgement, window update and payload — possibly larger than the socket's own segment
    /// size — arrive together)
    DataAckWnd { len: u16, wnd: u32 },
    /// the peer retransmits its newest data packet (its acknowledgement was lost, say): same number and payload,
    /// but — as every uTP packet — stamped with the *current* acknowledgement and receive window. Falls back to a
    /// pure ack when the peer has not sent data yet.
    DupDataWnd { wnd: u32 },
    /// (hostile) a data packet numbered `d` + 1 beyond the peer's own FIN — "after FIN" in the arrival orders C04
    /// quantifies over. Skipped while the peer has not sent a FIN.
    DataAfterFin { d: u8, len: u16 },
    /// the peer retransmits its FIN (the acknowledgement was lost, say): same number, the peer's last cumulative ack.
    /// Skipped while the peer has not sent an in-sequence FIN.
    FinRetx,
    /// a Crafted packet whose encoding is then damaged: bytes overwritten, first-extension byte forced,
    /// junk appended, truncated
    Mangled { base: Box<PeerOp>, flips: Vec<(u16, u8)>, first_ext: Option<u8>, append: Vec<u8>, trunc: Option<u16> },
    /// datagram from another source address: `src` 0..=3 an unbound address, 4 the bystander socket's
    /// address (spoofed; never with the bystander connection's own id)
    Foreign { src: u8, pkt: ForeignPkt },
}

#[derive(Clone, Debug, Serialize, Deserialize, PartialEq)]
pub enum ForeignPkt {
    Raw(Vec<u8>),
    /// well-formed header; id_sel 0: `id` as is, 1: the hostile connection's id (+id as delta),
    /// 2: the bystander connection's receive id at the socket + a non-zero delta derived from `id`
    Hdr { ptype: u8, id_sel: u8, id: u16, seq: u16, ack: u16, wnd: u32, sack: Option<Vec<u8>>, len: u16 },
}

/// A legitimate connection between the socket under test and a second real socket, running
/// while the scripted peer misbehaves, plus a fresh connection attempt afterwards.
#[derive(Clone, Debug, Serialize, Deserialize)]
pub struct Bystander {
    /// the second socket connects to the socket under test (else the other way round)
    pub incoming: bool,
    pub n_to_sock: u32,
    pub n_from_sock: u32,
    pub key: u64,
    /// start this long after the handshake of the scripted peer
    pub start_ms: u32,
    pub probe: bool,
    pub rnd: Vec<u16>,
}

#[derive(Clone, Debug, Default)]
pub struct ByResult {
    pub connect: super::mc::CallOut,
    pub connector: super::mc::StreamOut,
    pub acceptor: Option<super::mc::StreamOut>,
    /// streams the accept loop of the bystander's listener received that were not the bystander's
    pub stray_accepts: u32,
    pub probe_connect: super::mc::CallOut,
    pub probe_token_seen: bool,
    pub accept_err: Option<String>,
}

#[derive(Clone, Debug, Serialize, Deserialize, PartialEq)]
pub enum Step {
    Peer(PeerOp),
    W(WOp),
    R(ROp),
    /// advance virtual time by ms (>= 1)
    Adv(u32),
}

#[derive(Clone, Debug, Serialize, Deserialize)]
pub struct SpCase {
    pub sock: SockCfg,
    /// true: the peer connects to the socket (socket accepts)
    pub incoming: bool,
    pub peer_isn: u16,
    /// connection id used in the peer's SYN (incoming only)
    pub conn_id: u16,
    /// window the peer advertises in its handshake packet
    pub peer_wnd: u32,
    /// send the packet that completes the handshake (incoming: first STATE acking the SYN-ACK)
    pub complete_handshake: bool,
    pub key: u64,
    pub steps: Vec<Step>,
    /// virtual ms to run after the last step
    pub linger_ms: u32,
    /// disciplined peer: a Data op is skipped (and counted) when it would exceed the window
    /// last advertised by the socket or the reassembly slot capacity
    #[serde(default)]
    pub discipline: bool,
    #[serde(default)]
    pub bystander: Option<Bystander>,
}

#[derive(Clone, Debug)]
pub struct PeerSent {
    pub log_idx: usize,
    pub t_us: u64,
    pub pkt: Option<RefPacket>,
}

#[derive(Clone, Debug, Default)]
pub struct SpResult {
    pub log: Vec<WireRec>,
    pub app: Vec<AppRec>,
    pub read_data: Vec<u8>,
    pub written: u64,
    pub established: bool,
    pub handshake_err: Option<String>,
    /// connection id in packets peer -> socket / socket -> peer
    pub id_to_sock: u16,
    pub id_to_peer: u16,
    /// first data seq of the socket / of the peer
    pub sock_first_seq: Option<u16>,
    pub peer_first_seq: u16,
    /// seq -> payload length chosen by the peer
    pub peer_lens: BTreeMap<u16, u16>,
    pub peer_fin_seq: Option<u16>,
    pub preds: WirePredicates,
    pub t_end_us: u64,
    pub t_steps_end_us: u64,
    pub lib_tasks_end: i64,
    pub wedge: bool,
    pub sock_addr: Option<SocketAddr>,
    pub peer_addr: Option<SocketAddr>,
    /// log index at which the handshake prefix ended
    pub steps_from_idx: usize,
    pub eof: bool,
    pub read_err: Option<String>,
    pub write_err: Option<String>,
    /// end-of-connection-task events reported by the crate's cfg-guarded observer hook
    pub conn_events: Vec<super::ConnEvent>,
    /// instant at which the script first issued an R(Read…) step
    pub read_issued_at_us: Option<u64>,
    /// instant at which the script issued W(Shutdown) (the call may still be pending at the end)
    pub shutdown_called_at_us: Option<u64>,
    /// Data ops skipped by the disciplined peer
    pub skipped_data_ops: u32,
    /// log indices of peer data packets in the order sent: (log idx, seq)
    pub peer_data_sent: Vec<(usize, u16)>,
    pub by: Option<ByResult>,
    pub by_addr: Option<SocketAddr>,
}

/// payload of the peer's seq `seq`: keyed by (key, seq, index) so that the expected stream is
/// the concatenation in seq order whatever the arrival order was
pub fn peer_payload(key: u64, seq: u16, len: usize) -> Vec<u8> {
    let k = splitmix64(key ^ ((seq as u64) << 32) ^ 0xfeed);
    (0..len).map(|i| (splitmix64(k ^ (i as u64 >> 3)) >> ((i & 7) * 8)) as u8).collect()
}

struct Peer {
    net: Net,
    me: SocketAddr,
    sock: SocketAddr,
    id_to_sock: u16,
    key: u64,
    next_seq: u16,
    lens: BTreeMap<u16, u16>,
    fin_seq: Option<u16>,
    fin_seqs: std::collections::BTreeSet<u16>,
    /// highest seq (DATA or FIN) seen from the socket, and its FIN seq
    sock_first: Option<u16>,
    sock_high: Option<u16>,
    sock_fin: Option<u16>,
    cursor: usize,
    /// latest ack_nr / wnd seen in a packet from the socket
    sock_ack: Option<u16>,
    sock_wnd: u32,
    last_ack: u16,
    /// the furthest cumulative acknowledgement the peer has ever put on the wire (an old acknowledgement that
    /// arrives again — `Ack { back }` — does not take back what the peer holds)
    ack_floor: Option<u16>,
    last_wnd: u32,
    last_pure_ack: Option<RefPacket>,
    syn: Option<RefPacket>,
    sent: Vec<PeerSent>,
}

impl Peer {
    fn observe(&mut self) {
        let (me, sock) = (self.me, self.sock);
        let cursor = self.cursor;
        let mut upd: Vec<(u8, u16)> = vec![];
        let mut ackwnd = None;
        let n = self.net.with_log(|log| {
            for r in &log[cursor..] {
                if r.src == sock && r.dst == me && r.from_stack {
                    if let Some(p) = &r.pkt {
                        if p.ptype != refparse::ST_SYN {
                            ackwnd = Some((p.ack, p.wnd));
                        }
                        if p.ptype == refparse::ST_DATA || p.ptype == refparse::ST_FIN {
                            upd.push((p.ptype, p.seq));
                        }
                    }
                }
            }
            log.len()
        });
        self.cursor = n;
        if let Some((a, w)) = ackwnd {
            self.sock_ack = Some(a);
            self.sock_wnd = w;
        }
        for (t, s) in upd {
            if self.sock_first.is_none() {
                self.sock_first = Some(s);
            }
            if self.sock_high.is_none_or(|h| dist(s, h) > 0) {
                self.sock_high = Some(s);
            }
            if t == refparse::ST_FIN {
                self.sock_fin = Some(s);
            }
        }
    }

    fn base(&self, ptype: u8) -> RefPacket {
        RefPacket {
            ptype,
            version: 1,
            conn_id: self.id_to_sock,
            ts: self.net.now_us() as u32,
            ts_diff: 0,
            wnd: self.last_wnd,
            seq: self.next_seq,
            ack: self.last_ack,
            exts: vec![],
            payload: vec![],
        }
    }

    fn send(&mut self, p: RefPacket) {
        if p.ptype != refparse::ST_SYN && p.ptype != refparse::ST_RESET && self.ack_floor.is_none_or(|f| { let d = dist(p.ack, f); d > 0 && d < 20_000 }) { self.ack_floor = Some(p.ack); }
        let bytes = refparse::encode(&p);
        self.send_raw(bytes);
    }

    fn send_raw(&mut self, bytes: Vec<u8>) {
        let idx = self.net.log_len();
        let t = self.net.now_us();
        let pkt = refparse::parse_message(&bytes).ok();
        self.net.inject(self.me, self.sock, bytes, 0);
        self.sent.push(PeerSent { log_idx: idx, t_us: t, pkt });
    }

    fn ack_base(&self, expected_first: u16) -> u16 {
        self.sock_high.unwrap_or(expected_first.wrapping_sub(1))
    }
}

async fn settle() {
    tokio::time::sleep(Duration::from_millis(1)).await;
}

pub fn run(case: &SpCase, trace: bool) -> SpResult {
    let case = case.clone();
    run_sim(async move {
        let t0 = tokio::time::Instant::now();
        let net = Net::new(NetPlan { lat_ms: (0, 0), ..NetPlan::default() }, trace);
        let (sock, _token) = new_socket(&net, 0, &case.sock);
        let sock_addr = addr(case.sock.v6, 0);
        let peer_addr = addr(case.sock.v6, 1);
        net.add_scripted(peer_addr);
        let mut res = SpResult { sock_addr: Some(sock_addr), peer_addr: Some(peer_addr), ..Default::default() };
        let applog: SharedLog = Arc::new(Mutex::new(EndpointLog { keep_data: true, ..Default::default() }));

        let mut peer = Peer {
            net: net.clone(),
            me: peer_addr,
            sock: sock_addr,
            id_to_sock: 0,
            key: case.key,
            next_seq: 0,
            lens: BTreeMap::new(),
            fin_seq: None,
            fin_seqs: Default::default(),
            sock_first: None,
            sock_high: None,
            sock_fin: None,
            cursor: 0,
            sock_ack: None,
            // until the socket says otherwise its window is its configured receive buffer
            sock_wnd: case.sock.rx_buf,
            last_ack: 0,
            ack_floor: None,
            last_wnd: case.peer_wnd,
            last_pure_ack: None,
            syn: None,
            sent: vec![],
        };

        // ---- handshake
        let (stream_tx, mut stream_rx) = tokio::sync::mpsc::unbounded_channel();
        let expected_sock_first: u16;
        if case.incoming {
            let s2 = sock.clone();
            tokio::spawn(async move {
                let r = s2.accept().await;
                let _ = stream_tx.send(r.map_err(|e| e.to_string()));
            });
            settle().await;
            let syn = RefPacket { ptype: refparse::ST_SYN, version: 1, conn_id: case.conn_id, ts: net.now_us() as u32, ts_diff: 0, wnd: 0, seq: case.peer_isn, ack: 0, exts: vec![], payload: vec![] };
            peer.id_to_sock = case.conn_id.wrapping_add(1);
            res.id_to_sock = peer.id_to_sock;
            res.id_to_peer = case.conn_id;
            peer.next_seq = case.peer_isn.wrapping_add(1);
            peer.syn = Some(syn.clone());
            // the SYN itself travels with the SYN's connection id
            let bytes = refparse::encode(&syn);
            peer.send_raw(bytes);
            settle().await;
            // SYN-ACK
            let synack = net.with_log(|log| log.iter().find(|r| r.src == sock_addr && r.from_stack).and_then(|r| r.pkt.clone()));
            match synack {
                Some(p) if p.ptype == refparse::ST_STATE => {
                    expected_sock_first = p.seq;
                    peer.last_ack = p.seq.wrapping_sub(1);
                }
                other => {
                    res.handshake_err = Some(format!("no SYN-ACK from the socket (saw {other:?})"));
                    res.log = net.log();
                    return res;
                }
            }
            if case.complete_handshake {
                let mut st = peer.base(refparse::ST_STATE);
                st.wnd = case.peer_wnd;
                peer.last_pure_ack = Some(st.clone());
                peer.send(st);
                settle().await;
            }
        } else {
            let s2 = sock.clone();
            tokio::spawn(async move {
                let r = s2.connect(peer_addr).await;
                let _ = stream_tx.send(r.map_err(|e| e.to_string()));
            });
            settle().await;
            let syn = net.with_log(|log| log.iter().find(|r| r.src == sock_addr && r.from_stack).and_then(|r| r.pkt.clone()));
            let Some(syn) = syn.filter(|p| p.ptype == refparse::ST_SYN) else {
                res.handshake_err = Some("socket did not emit a SYN".into());
                res.log = net.log();
                return res;
            };
            peer.id_to_sock = syn.conn_id;
            res.id_to_sock = syn.conn_id;
            res.id_to_peer = syn.conn_id.wrapping_add(1);
            peer.next_seq = case.peer_isn;
            peer.last_ack = syn.seq;
            expected_sock_first = syn.seq.wrapping_add(1);
            let mut st = peer.base(refparse::ST_STATE);
            st.wnd = case.peer_wnd;
            peer.last_pure_ack = Some(st.clone());
            peer.send(st);
            settle().await;
        }
        res.peer_first_seq = peer.next_seq;

        // obtain the stream if the handshake produced one
        let w_abort = Arc::new(tokio::sync::Notify::new());
        let r_abort = Arc::new(tokio::sync::Notify::new());
        let mut w_tx: Option<UnboundedSender<WOp>> = None;
        let mut r_tx: Option<UnboundedSender<ROp>> = None;
        let tag = |s: &'static str| if trace { Some(s) } else { None };
        let mut try_take_stream = |w_tx: &mut Option<UnboundedSender<WOp>>, r_tx: &mut Option<UnboundedSender<ROp>>, res: &mut SpResult| {
            if w_tx.is_some() || res.handshake_err.is_some() {
                return;
            }
            match stream_rx.try_recv() {
                Ok(Ok(stream)) => {
                    let (r, w) = stream.split();
                    let (wt, wr) = tokio::sync::mpsc::unbounded_channel();
                    let (rt, rr) = tokio::sync::mpsc::unbounded_channel();
                    tokio::spawn(run_writer(w, wr, Stream::new(case.key, 0), applog.clone(), t0, tag("W"), w_abort.clone()));
                    tokio::spawn(run_reader(r, rr, Stream::new(case.key, 9), applog.clone(), t0, tag("R"), r_abort.clone()));
                    *w_tx = Some(wt);
                    *r_tx = Some(rt);
                    res.established = true;
                }
                Ok(Err(e)) => res.handshake_err = Some(e),
                Err(_) => {}
            }
        };
        try_take_stream(&mut w_tx, &mut r_tx, &mut res);
        res.steps_from_idx = net.log_len();

        // ---- bystander: a second real socket with a legitimate connection to the socket under test
        let by_addr = addr(case.sock.v6, 2);
        let by_res: Arc<Mutex<ByResult>> = Arc::new(Mutex::new(ByResult::default()));
        let mut by_sock: Option<Arc<super::Sock>> = None;
        if let Some(by) = &case.bystander {
            use super::mc::{CallOut, TOKEN_LEN, exchange, token};
            let cfg = SockCfg { v6: case.sock.v6, rnd: by.rnd.clone(), max_live: 64, ..SockCfg::default() };
            let (bsock, _btoken) = new_socket(&net, 2, &cfg);
            std::mem::forget(_btoken);
            by_sock = Some(bsock.clone());
            res.by_addr = Some(by_addr);
            let (listener, connector, listener_peer, connect_to) = if by.incoming { (sock.clone(), bsock.clone(), by_addr, sock_addr) } else { (bsock.clone(), sock.clone(), sock_addr, by_addr) };
            let by2 = by.clone();
            let r2 = by_res.clone();
            // accept loop: whatever the listener hands out is inspected; only the stream from the right
            // address that delivers the right token is the bystander's (or the probe's)
            tokio::spawn(async move {
                loop {
                    let stream = match listener.accept().await {
                        Ok(s) => s,
                        Err(e) => {
                            r2.lock().accept_err = Some(e.to_string());
                            return;
                        }
                    };
                    let r3 = r2.clone();
                    let by3 = by2.clone();
                    tokio::spawn(async move {
                        use tokio::io::AsyncReadExt;
                        let remote = stream.remote_addr();
                        let (mut r, w) = stream.split();
                        let mut tok = [0u8; TOKEN_LEN];
                        let got = tokio::time::timeout(Duration::from_millis(400), r.read_exact(&mut tok)).await;
                        let ok = matches!(got, Ok(Ok(_)));
                        if ok && remote == listener_peer && tok == token(0, by3.key) {
                            r3.lock().acceptor = Some(Default::default());
                            let r4 = r3.clone();
                            let (n_w, n_r) = if by3.incoming { (by3.n_from_sock, by3.n_to_sock) } else { (by3.n_to_sock, by3.n_from_sock) };
                            exchange((r, w), None, Stream::new(by3.key, 1), n_w, Stream::new(by3.key, 0), n_r, 20, t0, move |f| f(r4.lock().acceptor.as_mut().unwrap())).await;
                        } else if ok && remote == listener_peer && tok == token(1, by3.key) {
                            r3.lock().probe_token_seen = true;
                        } else {
                            r3.lock().stray_accepts += 1;
                        }
                    });
                }
            });
            let by2 = by.clone();
            let r2 = by_res.clone();
            let connector2 = connector.clone();
            tokio::spawn(async move {
                tokio::time::sleep(Duration::from_millis(by2.start_ms as u64)).await;
                r2.lock().connect = CallOut::Pending;
                match connector2.connect(connect_to).await {
                    Ok(stream) => {
                        r2.lock().connect = CallOut::Ok((tokio::time::Instant::now() - t0).as_micros() as u64);
                        let r4 = r2.clone();
                        let (n_w, n_r) = if by2.incoming { (by2.n_to_sock, by2.n_from_sock) } else { (by2.n_from_sock, by2.n_to_sock) };
                        exchange(stream.split(), Some(token(0, by2.key)), Stream::new(by2.key, 0), n_w, Stream::new(by2.key, 1), n_r, 20, t0, move |f| f(&mut r4.lock().connector)).await;
                    }
                    Err(e) => r2.lock().connect = CallOut::Err((tokio::time::Instant::now() - t0).as_micros() as u64, format!("{e:?}: {e}")),
                }
            });
        }
        let by_recv_id_at_sock = |net: &Net| -> Option<u16> {
            net.with_log(|log| {
                log.iter().find_map(|r| {
                    let p = r.pkt.as_ref()?;
                    if !r.from_stack || p.ptype != refparse::ST_SYN { return None; }
                    if r.src == by_addr && r.dst == sock_addr { Some(p.conn_id.wrapping_add(1)) } else if r.src == sock_addr && r.dst == by_addr { Some(p.conn_id) } else { None }
                })
            })
        };

        // ---- steps
        let mut writer_dropped = false;
        for step in &case.steps {
            peer.observe();
            try_take_stream(&mut w_tx, &mut r_tx, &mut res);
            if trace {
                println!("        step t={:.3}ms {:?}", net.now_us() as f64 / 1000.0, step);
            }
            match step {
                Step::Adv(ms) => {
                    tokio::time::sleep(Duration::from_millis((*ms).max(1) as u64)).await;
                    continue;
                }
                Step::W(op) => {
                    if matches!(op, WOp::Drop) {
                        writer_dropped = true;
                    }
                    if matches!(op, WOp::Shutdown) && w_tx.is_some() && !writer_dropped {
                        res.shutdown_called_at_us.get_or_insert(net.now_us());
                    }
                    if let Some(tx) = &w_tx {
                        if matches!(op, WOp::Drop) {
                            // takes effect at once, even when an earlier operation is still pending
                            let _ = tx.send(WOp::Drop);
                            w_abort.notify_one();
                        } else {
                            let _ = tx.send(op.clone());
                        }
                    }
                }
                Step::R(op) => {
                    if let Some(tx) = &r_tx {
                        if matches!(op, ROp::Read { .. } | ROp::ReadToEnd { .. }) {
                            res.read_issued_at_us.get_or_insert(net.now_us());
                        }
                        let _ = tx.send(op.clone());
                        if matches!(op, ROp::Drop) {
                            r_abort.notify_one();
                        }
                    }
                }
                Step::Peer(op) => match op {
                    PeerOp::Data { dseq, len } => {
                        let seq = peer.next_seq.wrapping_add(*dseq as u16);
                        if peer.fin_seqs.iter().any(|f| dist(seq, *f) >= 0) {
                            // a sequence number has one meaning, and the FIN is the last number of
                            // a stream: never data on or beyond a FIN's number
                            res.skipped_data_ops += 1;
                            settle().await;
                            continue;
                        }
                        if case.discipline {
                            // bytes the peer has in flight beyond the socket's latest ack
                            let a = peer.sock_ack.unwrap_or(res.peer_first_seq.wrapping_sub(1));
                            let off = dist(seq, a) - 1; // slot offset from the next expected seq
                            let l = peer.lens.get(&seq).copied().unwrap_or((*len).max(1)) as u64;
                            let inflight: u64 = peer.lens.iter().filter(|(s, _)| dist(**s, a) > 0 && **s != seq).map(|(_, l)| *l as u64).sum();
                            let cap = (case.sock.rx_buf as usize / case.sock.min_payload().max(1)).max(1) as i32;
                            let already = peer.lens.contains_key(&seq);
                            if off < 0 && !already || off >= cap.min(60000) || inflight + l > peer.sock_wnd as u64 || (peer.fin_seq.is_some() && !already) {
                                res.skipped_data_ops += 1;
                                settle().await;
                                continue;
                            }
                        }
                        let len = *peer.lens.entry(seq).or_insert((*len).max(1));
                        res.peer_data_sent.push((net.log_len(), seq));
                        let mut p = peer.base(refparse::ST_DATA);
                        p.seq = seq;
                        p.payload = peer_payload(peer.key, seq, len as usize);
                        if *dseq == 0 {
                            peer.next_seq = peer.next_seq.wrapping_add(1);
                        }
                        peer.send(p);
                    }
                    PeerOp::DataAck { dseq, len } => {
                        let seq = peer.next_seq.wrapping_add(*dseq as u16);
                        if peer.fin_seqs.iter().any(|f| dist(seq, *f) >= 0) {
                            res.skipped_data_ops += 1;
                            settle().await;
                            continue;
                        }
                        let len = *peer.lens.entry(seq).or_insert((*len).max(1));
                        res.peer_data_sent.push((net.log_len(), seq));
                        let mut p = peer.base(refparse::ST_DATA);
                        p.seq = seq;
                        p.ack = peer.ack_base(expected_sock_first);
                        peer.last_ack = p.ack;
                        p.payload = peer_payload(peer.key, seq, len as usize);
                        if *dseq == 0 {
                            peer.next_seq = peer.next_seq.wrapping_add(1);
                        }
                        peer.send(p);
                    }
                    PeerOp::FinRetx => {
                        let Some(seq) = peer.fin_seq else {
                            res.skipped_data_ops += 1;
                            settle().await;
                            continue;
                        };
                        let mut p = peer.base(refparse::ST_FIN);
                        p.seq = seq;
                        peer.send(p);
                    }
                    PeerOp::DataAfterFin { d, len } => {
                        let Some(fin) = peer.fin_seqs.iter().copied().max_by_key(|f| dist(*f, peer.next_seq)) else {
                            res.skipped_data_ops += 1;
                            settle().await;
                            continue;
                        };
                        let seq = fin.wrapping_add(1 + *d as u16);
                        let len = *peer.lens.entry(seq).or_insert((*len).max(1));
                        res.peer_data_sent.push((net.log_len(), seq));
                        let mut p = peer.base(refparse::ST_DATA);
                        p.seq = seq;
                        p.payload = peer_payload(peer.key, seq, len as usize);
                        peer.send(p);
                    }
                    PeerOp::DupDataWnd { wnd } => {
                        let seq = peer.next_seq.wrapping_sub(1);
                        let mut p = match peer.lens.get(&seq).copied() {
                            Some(len) if !peer.fin_seqs.contains(&seq) => {
                                let mut p = peer.base(refparse::ST_DATA);
                                p.seq = seq;
                                p.payload = peer_payload(peer.key, seq, len as usize);
                                res.peer_data_sent.push((net.log_len(), seq));
                                p
                            }
                            _ => peer.base(refparse::ST_STATE),
                        };
                        p.ack = peer.ack_base(expected_sock_first);
                        p.wnd = *wnd;
                        peer.last_ack = p.ack;
                        peer.last_wnd = *wnd;
                        peer.send(p);
                    }
                    PeerOp::DataAckWnd { len, wnd } => {
                        let seq = peer.next_seq;
                        if peer.fin_seqs.iter().any(|f| dist(seq, *f) >= 0) {
                            res.skipped_data_ops += 1;
                            settle().await;
                            continue;
                        }
                        // never more than fits the link or the socket's advertised window
                        let len = (*len).max(1).min(case.sock.max_payload().min(u16::MAX as usize) as u16).min(peer.sock_wnd.min(u16::MAX as u32) as u16);
                        if len == 0 {
                            res.skipped_data_ops += 1;
                            settle().await;
                            continue;
                        }
                        let len = *peer.lens.entry(seq).or_insert(len);
                        res.peer_data_sent.push((net.log_len(), seq));
                        let mut p = peer.base(refparse::ST_DATA);
                        p.seq = seq;
                        p.ack = peer.ack_base(expected_sock_first);
                        p.wnd = *wnd;
                        peer.last_ack = p.ack;
                        peer.last_wnd = *wnd;
                        p.payload = peer_payload(peer.key, seq, len as usize);
                        peer.next_seq = peer.next_seq.wrapping_add(1);
                        peer.send(p);
                    }
                    PeerOp::Ack { back, wnd, sack } => {
                        let mut p = peer.base(refparse::ST_STATE);
                        p.ack = peer.ack_base(expected_sock_first).wrapping_sub(*back as u16);
                        p.wnd = *wnd;
                        if let Some(s) = sack {
                            p.exts.push((1, s.clone()));
                        }
                        peer.last_ack = p.ack;
                        peer.last_wnd = *wnd;
                        peer.last_pure_ack = Some(p.clone());
                        peer.send(p);
                    }
                    PeerOp::AckAdv { adv, wnd, sack } => {
                        let mut p = peer.base(refparse::ST_STATE);
                        let high = peer.ack_base(expected_sock_first);
                        let room = dist(high, peer.last_ack).max(0) as u16;
                        p.ack = peer.last_ack.wrapping_add((*adv).min(room));
                        p.wnd = *wnd;
                        if let Some(s) = sack {
                            p.exts.push((1, s.clone()));
                        }
                        peer.last_ack = p.ack;
                        peer.last_wnd = *wnd;
                        peer.last_pure_ack = Some(p.clone());
                        peer.send(p);
                    }
                    PeerOp::SackHeld { adv, skip, count, wnd } => {
                        let mut p = peer.base(refparse::ST_STATE);
                        let high = peer.ack_base(expected_sock_first);
                        // an honest receiver's cumulative position: the furthest it has ever acknowledged (within what
                        // the socket has sent), not an old acknowledgement that was repeated meanwhile
                        let base = match peer.ack_floor { Some(f) if dist(f, peer.last_ack) > 0 && dist(high, f) >= 0 => f, _ => peer.last_ack };
                        let room = dist(high, base).max(0);
                        let new_ack = base.wrapping_add((*adv as i32).min((room - 2).max(0)) as u16);
                        let avail = dist(high, new_ack) - 1; // packets new_ack+2 ..= high
                        p.ack = new_ack;
                        p.wnd = *wnd;
                        if avail > 0 {
                            let first = (*skip as i32).min(avail - 1);
                            let cnt = (*count as i32).max(1).min(avail - first);
                            let nbytes = if first + cnt > 32 { 8 } else { 4 };
                            let mut bits = vec![0u8; nbytes];
                            for i in first..(first + cnt).min(nbytes as i32 * 8) {
                                bits[(i / 8) as usize] |= 1 << (i % 8);
                            }
                            p.exts.push((1, bits));
                        }
                        peer.last_ack = p.ack;
                        peer.last_wnd = *wnd;
                        peer.last_pure_ack = Some(p.clone());
                        peer.send(p);
                    }
                    PeerOp::DupAck(n) => {
                        for i in 0..*n {
                            if let Some(mut p) = peer.last_pure_ack.clone() {
                                p.ts = net.now_us() as u32;
                                peer.send(p);
                            }
                            if i + 1 < *n {
                                settle().await;
                            }
                        }
                    }
                    PeerOp::Fin { dseq } | PeerOp::FinAck { dseq } => {
                        if case.discipline && (peer.fin_seq.is_some() || *dseq != 0 || peer.lens.keys().any(|s| dist(*s, peer.next_seq) >= 0)) {
                            res.skipped_data_ops += 1;
                            settle().await;
                            continue;
                        }
                        let seq = peer.next_seq.wrapping_add(*dseq as u16);
                        if peer.lens.keys().any(|d| dist(*d, seq) >= 0) || peer.fin_seqs.iter().any(|f| *f != seq) {
                            // the FIN takes one number, above every data number ever used
                            res.skipped_data_ops += 1;
                            settle().await;
                            continue;
                        }
                        peer.fin_seqs.insert(seq);
                        let mut p = peer.base(refparse::ST_FIN);
                        p.seq = seq;
                        if matches!(op, PeerOp::FinAck { .. }) {
                            p.ack = peer.ack_base(expected_sock_first);
                            peer.last_ack = p.ack;
                        }
                        if *dseq == 0 {
                            peer.next_seq = peer.next_seq.wrapping_add(1);
                            peer.fin_seq.get_or_insert(seq);
                        }
                        peer.send(p);
                    }
                    PeerOp::Reset { ack_fin } => {
                        let mut p = peer.base(refparse::ST_RESET);
                        p.ack = match (ack_fin, peer.sock_fin) {
                            (true, Some(f)) => f,
                            _ => peer.ack_base(expected_sock_first),
                        };
                        peer.send(p);
                    }
                    PeerOp::SynDup => {
                        if let Some(mut s) = peer.syn.clone() {
                            s.ts = net.now_us() as u32;
                            let b = refparse::encode(&s);
                            peer.send_raw(b);
                        }
                    }
                    PeerOp::Raw(b) => peer.send_raw(b.clone()),
                    PeerOp::Mangled { base, flips, first_ext, append, trunc } => {
                        if let PeerOp::Crafted { ptype, dseq, dack, wnd, sack, did, len } = &**base {
                            let mut p = peer.base(*ptype % 5);
                            p.seq = peer.next_seq.wrapping_add(*dseq as u16);
                            p.ack = peer.ack_base(expected_sock_first).wrapping_add(*dack as u16);
                            p.wnd = *wnd;
                            p.conn_id = p.conn_id.wrapping_add(*did as u16);
                            if let Some(s) = sack {
                                p.exts.push((1, s.clone()));
                            }
                            if *len > 0 {
                                p.payload = peer_payload(peer.key ^ 0xbad, p.seq, *len as usize);
                            }
                            let mut b = refparse::encode(&p);
                            if let Some(e) = first_ext {
                                if b.len() > 1 { b[1] = *e; }
                            }
                            for (pos, val) in flips {
                                if !b.is_empty() { let i = *pos as usize % b.len(); b[i] = *val; }
                            }
                            b.extend_from_slice(append);
                            if let Some(t) = trunc {
                                b.truncate(*t as usize);
                            }
                            peer.send_raw(b);
                        }
                    }
                    PeerOp::Foreign { src, pkt } => {
                        let from = if *src >= 4 && case.bystander.is_some() { by_addr } else { addr(case.sock.v6, 100 + (*src % 4) as usize) };
                        let bytes = match pkt {
                            ForeignPkt::Raw(b) => Some(b.clone()),
                            ForeignPkt::Hdr { ptype, id_sel, id, seq, ack, wnd, sack, len } => {
                                let by_id = by_recv_id_at_sock(&net);
                                let conn_id = match (*id_sel % 3, by_id) {
                                    (1, _) => Some(peer.id_to_sock.wrapping_add(*id % 4)),
                                    (2, Some(b)) => {
                                        // never the bystander connection's own id, nor the ids the fresh connection
                                        // afterwards will use (the next ones: +1..+3) — those would be aimed at them
                                        let d = [9u16, 10, 32, 0xffff, 0xfffe, 0xfffd][(*id % 6) as usize];
                                        Some(b.wrapping_add(d))
                                    }
                                    _ => {
                                        // a random id from the bystander's address must not be the bystander's own by accident
                                        if from == by_addr && by_id == Some(*id) { None } else { Some(*id) }
                                    }
                                };
                                // spoofed datagrams never carry the bystander connection's own id (that would be aimed at it);
                                // before the bystander's SYN is on the wire its id is unknown: they wait
                                let conn_id = match (conn_id, by_id) {
                                    (Some(c), Some(b)) if from == by_addr && c.wrapping_sub(b) <= 3 => None,
                                    (c, _) => c,
                                };
                                if from == by_addr && by_id.is_none() { None } else {
                                    conn_id.map(|conn_id| {
                                        let mut p = RefPacket { ptype: *ptype % 5, version: 1, conn_id, ts: net.now_us() as u32, ts_diff: 0, wnd: *wnd, seq: *seq, ack: *ack, exts: vec![], payload: vec![] };
                                        if let Some(s) = sack { p.exts.push((1, s.clone())); }
                                        if *len > 0 { p.payload = peer_payload(0xf00, *seq, *len as usize); }
                                        refparse::encode(&p)
                                    })
                                }
                            }
                        };
                        match bytes {
                            Some(b) => net.inject(from, sock_addr, b, 0),
                            None => res.skipped_data_ops += 1,
                        }
                    }
                    PeerOp::Crafted { ptype, dseq, dack, wnd, sack, did, len } => {
                        let mut p = peer.base(*ptype % 5);
                        p.seq = peer.next_seq.wrapping_add(*dseq as u16);
                        p.ack = peer.ack_base(expected_sock_first).wrapping_add(*dack as u16);
                        p.wnd = *wnd;
                        p.conn_id = p.conn_id.wrapping_add(*did as u16);
                        if let Some(s) = sack {
                            p.exts.push((1, s.clone()));
                        }
                        if *len > 0 {
                            p.payload = peer_payload(peer.key ^ 0xbad, p.seq, *len as usize);
                        }
                        peer.send(p);
                    }
                },
            }
            settle().await;
        }
        peer.observe();
        try_take_stream(&mut w_tx, &mut r_tx, &mut res);
        res.t_steps_end_us = net.now_us();
        if let (Some(by), Some(bsock)) = (&case.bystander, &by_sock) {
            if by.probe {
                // a fresh connection in the bystander's direction: the accept/connect service still works
                use super::mc::{CallOut, token};
                let (connector, connect_to) = if by.incoming { (bsock.clone(), sock_addr) } else { (sock.clone(), by_addr) };
                let r2 = by_res.clone();
                let key = by.key;
                tokio::spawn(async move {
                    use tokio::io::AsyncWriteExt;
                    r2.lock().probe_connect = CallOut::Pending;
                    match connector.connect(connect_to).await {
                        Ok(mut stream) => {
                            r2.lock().probe_connect = CallOut::Ok((tokio::time::Instant::now() - t0).as_micros() as u64);
                            let _ = stream.write_all(&token(1, key)).await;
                            tokio::time::sleep(Duration::from_millis(200)).await;
                        }
                        Err(e) => r2.lock().probe_connect = CallOut::Err((tokio::time::Instant::now() - t0).as_micros() as u64, e.to_string()),
                    }
                });
            }
        }
        if case.linger_ms > 0 {
            tokio::time::sleep(Duration::from_millis(case.linger_ms as u64)).await;
        }
        peer.observe();
        try_take_stream(&mut w_tx, &mut r_tx, &mut res);

        res.t_end_us = net.now_us();
        // harness tasks alive: accept/connect task finished; writer + reader tasks if established
        let harness = if res.established { 2 } else if res.handshake_err.is_some() { 0 } else { 1 };
        res.lib_tasks_end = tokio::runtime::Handle::current().metrics().num_alive_tasks() as i64 - harness;
        res.log = net.log();
        {
            let g = applog.lock();
            res.app = g.recs.clone();
            res.read_data = g.read_data.clone();
            res.written = g.written;
            res.eof = g.eof;
            res.read_err = g.read_err.clone();
            res.write_err = g.write_err.clone();
        }
        res.sock_first_seq = peer.sock_first.or(Some(expected_sock_first));
        res.peer_lens = peer.lens.clone();
        res.peer_fin_seq = peer.fin_seq;
        res.preds = net.predicates();
        res.wedge = take_wedge();
        res.conn_events = super::take_conn_events();
        if case.bystander.is_some() {
            res.by = Some(by_res.lock().clone());
        }
        // keep the command channels alive until here so that the app tasks do not end early
        drop((w_tx, r_tx));
        res
    })
}

/// Convenience: what the socket sent to the peer / the peer to the socket, in log order.
#[derive(Clone, Debug)]
pub enum Ev<'a> {
    /// socket -> peer
    Tx(&'a WireRec, &'a RefPacket),
    /// peer -> socket
    Rx(&'a WireRec, &'a RefPacket),
}

pub fn events<'a>(res: &'a SpResult) -> impl Iterator<Item = Ev<'a>> + 'a {
    let sock = res.sock_addr.unwrap();
    res.log.iter().filter_map(move |r| {
        let p = r.pkt.as_ref()?;
        if r.src == sock { Some(Ev::Tx(r, p)) } else if r.dst == sock { Some(Ev::Rx(r, p)) } else { None }
    })
}
