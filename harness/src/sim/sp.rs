//! SP engine (scripted peer) — filled in below.
