//! Application drivers: keyed payload streams and poll-level reader / writer scripts whose
//! every result is logged with its virtual timestamp.

use std::sync::Arc;

use librqbit_utp::{UtpStreamReadHalf, UtpStreamWriteHalf};
use parking_lot::Mutex;
use serde::{Deserialize, Serialize};
use tokio::io::{AsyncReadExt, AsyncWriteExt};

use crate::engine::splitmix64;

thread_local! {
    static EVSEQ: std::cell::Cell<u64> = const { std::cell::Cell::new(0) };
}
/// Global ordinal shared by the wire log and the application logs of a case (causality
/// inside one virtual instant).
pub fn next_ord() -> u64 {
    EVSEQ.with(|c| {
        let v = c.get() + 1;
        c.set(v);
        v
    })
}
pub fn reset_ord() {
    EVSEQ.with(|c| c.set(0));
}

/// Position-dependent keyed byte stream: any offset error, duplication or cross-connection
/// leak changes the content.
#[derive(Clone, Copy, Debug)]
pub struct Stream {
    pub key: u64,
}

impl Stream {
    pub fn new(conn_key: u64, dir: u8) -> Self {
        Stream { key: splitmix64(conn_key ^ ((dir as u64 + 1) << 56)) }
    }
    #[inline]
    pub fn byte(&self, off: u64) -> u8 {
        let w = splitmix64(self.key ^ (off >> 3));
        (w >> ((off & 7) * 8)) as u8
    }
    pub fn fill(&self, off: u64, buf: &mut [u8]) {
        for (i, b) in buf.iter_mut().enumerate() {
            *b = self.byte(off + i as u64);
        }
    }
    /// first index at which `data` deviates from the stream at `off`
    pub fn mismatch(&self, off: u64, data: &[u8]) -> Option<usize> {
        data.iter().enumerate().find(|(i, b)| **b != self.byte(off + *i as u64)).map(|(i, _)| i)
    }
}

/// waker of one write attempt: forwards to the application task's waker until the attempt is abandoned
struct AttemptWaker {
    inner: std::task::Waker,
    alive: std::sync::Arc<std::sync::atomic::AtomicBool>,
}
impl std::task::Wake for AttemptWaker {
    fn wake(self: std::sync::Arc<Self>) {
        if self.alive.load(std::sync::atomic::Ordering::SeqCst) { self.inner.wake_by_ref(); }
    }
}

#[derive(Clone, Debug, Serialize, Deserialize, PartialEq)]
pub enum WOp {
    /// write_all(n bytes) in chunks of at most `chunk`
    Write { n: u32, chunk: u32 },
    Flush,
    Shutdown,
    /// shutdown(), giving up after `ms` (an application-level timeout; the half is kept)
    ShutdownFor(u32),
    Sleep(u32),
    /// wait until this endpoint's reader script has finished (application-level ordering)
    WaitOwnReader,
    /// wait until the peer endpoint's writer script has finished (stands for an application-level
    /// "I am done" message; E2E engine only)
    WaitPeerWriter,
    /// drop the write half (ends the script)
    Drop,
}

#[derive(Clone, Debug, Serialize, Deserialize, PartialEq)]
pub enum ROp {
    /// read until `n` bytes were read in total by this op (or EOF/error), buffer size `buf`
    Read { n: u32, buf: u32 },
    /// read until EOF or error
    ReadToEnd { buf: u32 },
    /// read until EOF or error, giving up after `ms` (an application-level timeout)
    ReadToEndFor { buf: u32, ms: u32 },
    Sleep(u32),
    Drop,
}

#[derive(Clone, Debug, PartialEq)]
pub enum AppEv {
    /// a poll_write call returned Ok(n)
    Wrote(usize),
    WriteErr(String),
    /// all bytes of a Write op accepted
    WriteOpDone,
    FlushOk,
    FlushErr(String),
    ShutdownOk,
    ShutdownErr(String),
    WriterDropped,
    /// a read call returned n>0 bytes, content verified: Some(offset of first bad byte)
    Read { n: usize, bad_at: Option<u64> },
    Eof,
    ReadErr(String),
    ReaderDropped,
    ScriptDone,
    /// an application-level timeout fired
    GaveUp,
}

#[derive(Clone, Debug)]
pub struct AppRec {
    pub ord: u64,
    pub t_us: u64,
    /// instant at which the operation was started
    pub t_start_us: u64,
    pub ev: AppEv,
}

/// Shared per-endpoint application state, readable by oracles during and after the run.
#[derive(Debug, Default)]
pub struct EndpointLog {
    pub recs: Vec<AppRec>,
    /// bytes accepted by poll_write so far
    pub written: u64,
    /// bytes obtained from read so far
    pub read: u64,
    pub first_bad_read_at: Option<u64>,
    pub eof: bool,
    pub read_err: Option<String>,
    pub write_err: Option<String>,
    pub writer_done: bool,
    pub reader_done: bool,
    /// `written` value at each successful flush / shutdown: (t_us, written, is_shutdown)
    pub sync_points: Vec<(u64, u64, bool)>,
    /// the peer endpoint's log (E2E engine), for application-level ordering ops
    pub peer: Option<SharedLog>,
    /// keep the bytes that were read (SP engine: verified post hoc)
    pub keep_data: bool,
    pub read_data: Vec<u8>,
}

pub type SharedLog = Arc<Mutex<EndpointLog>>;

fn now_us(t0: tokio::time::Instant) -> u64 {
    (tokio::time::Instant::now() - t0).as_micros() as u64
}

pub async fn run_writer(mut w: UtpStreamWriteHalf, mut ops: tokio::sync::mpsc::UnboundedReceiver<WOp>, stream: Stream, log: SharedLog, t0: tokio::time::Instant, trace: Option<&'static str>, abort: Arc<tokio::sync::Notify>) {
    let mut off: u64 = 0;
    let mut buf = Vec::new();
    let push = |log: &SharedLog, t_start: u64, ev: AppEv| {
        let t = now_us(t0);
        if let Some(tag) = trace {
            if !matches!(ev, AppEv::Wrote(_) | AppEv::Read { bad_at: None, .. }) {
                println!("        app {tag} t={:.3}ms (started {:.3}ms) {:?}", t as f64 / 1000.0, t_start as f64 / 1000.0, ev);
            }
        }
        log.lock().recs.push(AppRec { ord: next_ord(), t_us: t, t_start_us: t_start, ev });
    };
    let mut dropped = false;
    'outer: while let Some(op) = ops.recv().await {
        match op {
            WOp::Write { n, chunk } => {
                let mut left = n as usize;
                let chunk = (chunk as usize).max(1);
                while left > 0 {
                    let c = left.min(chunk);
                    buf.resize(c, 0);
                    stream.fill(off, &mut buf);
                    let ts = now_us(t0);
                    // one chunk size in eight: the application gives a blocked write 25 ms, abandons it and tries again from
                    // another task (select!/timeout patterns, a write half handed from task to task). Each attempt polls with
                    // its own waker; the waker of an abandoned attempt stops working, like that of a task that is gone.
                    let handoff = chunk % 8 == 5;
                    let wr = tokio::select! { biased; _ = abort.notified() => { dropped = true; break 'outer; } x = async {
                        if !handoff { return w.write(&buf).await; }
                        loop {
                            let alive = std::sync::Arc::new(std::sync::atomic::AtomicBool::new(true));
                            let attempt = std::future::poll_fn(|cx| {
                                let gw = std::task::Waker::from(std::sync::Arc::new(AttemptWaker { inner: cx.waker().clone(), alive: alive.clone() }));
                                tokio::io::AsyncWrite::poll_write(std::pin::Pin::new(&mut w), &mut std::task::Context::from_waker(&gw), &buf)
                            });
                            match tokio::time::timeout(std::time::Duration::from_millis(25), attempt).await {
                                Ok(x) => break x,
                                Err(_) => alive.store(false, std::sync::atomic::Ordering::SeqCst),
                            }
                        }
                    } => x };
                    match wr {
                        Ok(0) => {
                            log.lock().write_err = Some("write returned Ok(0)".into());
                            push(&log, ts, AppEv::WriteErr("write returned Ok(0)".into()));
                            break 'outer;
                        }
                        Ok(k) => {
                            off += k as u64;
                            left -= k;
                            log.lock().written = off;
                            push(&log, ts, AppEv::Wrote(k));
                        }
                        Err(e) => {
                            log.lock().write_err = Some(e.to_string());
                            push(&log, ts, AppEv::WriteErr(e.to_string()));
                            break 'outer;
                        }
                    }
                }
                push(&log, now_us(t0), AppEv::WriteOpDone);
            }
            WOp::Flush => {
                let ts = now_us(t0);
                let fr = tokio::select! { biased; _ = abort.notified() => { dropped = true; break 'outer; } x = w.flush() => x };
                match fr {
                    Ok(()) => {
                        let t = now_us(t0);
                        log.lock().sync_points.push((t, off, false));
                        push(&log, ts, AppEv::FlushOk);
                    }
                    Err(e) => {
                        log.lock().write_err.get_or_insert(e.to_string());
                        push(&log, ts, AppEv::FlushErr(e.to_string()));
                    }
                }
            }
            WOp::Shutdown | WOp::ShutdownFor(_) => {
                let ts = now_us(t0);
                let patience = match op { WOp::ShutdownFor(ms) => Some(std::time::Duration::from_millis(ms as u64)), _ => None };
                let sr = tokio::select! { biased;
                    _ = abort.notified() => { dropped = true; break 'outer; }
                    _ = async { match patience { Some(d) => tokio::time::sleep(d).await, None => std::future::pending().await } } => { push(&log, ts, AppEv::GaveUp); continue 'outer; }
                    x = w.shutdown() => x };
                match sr {
                    Ok(()) => {
                        let t = now_us(t0);
                        log.lock().sync_points.push((t, off, true));
                        push(&log, ts, AppEv::ShutdownOk);
                    }
                    Err(e) => {
                        log.lock().write_err.get_or_insert(e.to_string());
                        push(&log, ts, AppEv::ShutdownErr(e.to_string()));
                    }
                }
            }
            WOp::Sleep(ms) => tokio::time::sleep(std::time::Duration::from_millis(ms as u64)).await,
            WOp::WaitOwnReader => {
                while !log.lock().reader_done {
                    tokio::time::sleep(std::time::Duration::from_millis(5)).await;
                }
            }
            WOp::WaitPeerWriter => {
                let peer = log.lock().peer.clone();
                if let Some(p) = peer {
                    while !p.lock().writer_done {
                        tokio::time::sleep(std::time::Duration::from_millis(5)).await;
                    }
                }
            }
            WOp::Drop => {
                dropped = true;
                break;
            }
        }
    }
    if dropped {
        drop(w);
        push(&log, now_us(t0), AppEv::WriterDropped);
        log.lock().writer_done = true;
    } else {
        // keep the half alive until the scenario ends: dropping it is an application action
        push(&log, now_us(t0), AppEv::ScriptDone);
        log.lock().writer_done = true;
        std::future::pending::<()>().await;
        drop(w);
    }
}

pub async fn run_reader(mut r: UtpStreamReadHalf, mut ops: tokio::sync::mpsc::UnboundedReceiver<ROp>, stream: Stream, log: SharedLog, t0: tokio::time::Instant, trace: Option<&'static str>, abort: Arc<tokio::sync::Notify>) {
    let mut off: u64 = 0;
    let mut buf = Vec::new();
    let push = |log: &SharedLog, t_start: u64, ev: AppEv| {
        let t = now_us(t0);
        if let Some(tag) = trace {
            if !matches!(ev, AppEv::Wrote(_) | AppEv::Read { bad_at: None, .. }) {
                println!("        app {tag} t={:.3}ms (started {:.3}ms) {:?}", t as f64 / 1000.0, t_start as f64 / 1000.0, ev);
            }
        }
        log.lock().recs.push(AppRec { ord: next_ord(), t_us: t, t_start_us: t_start, ev });
    };
    let mut dropped = false;
    let mut ended = false;
    'outer: while let Some(op) = ops.recv().await {
        let mut give_up: Option<tokio::time::Instant> = None;
        let (mut left, bsz) = match op {
            ROp::Read { n, buf } => (n as u64, buf),
            ROp::ReadToEnd { buf } => (u64::MAX, buf),
            ROp::ReadToEndFor { buf, ms } => {
                give_up = Some(tokio::time::Instant::now() + std::time::Duration::from_millis(ms as u64));
                (u64::MAX, buf)
            }
            ROp::Sleep(ms) => {
                // (after end-of-stream or an error the script has nothing left to wait for)
                if !ended {
                    tokio::time::sleep(std::time::Duration::from_millis(ms as u64)).await;
                }
                continue;
            }
            ROp::Drop => {
                dropped = true;
                break;
            }
        };
        if ended {
            continue;
        }
        buf.resize((bsz as usize).max(1), 0);
        // a quarter of the buffer sizes: the application fills one buffer over several calls (as read_exact, io::copy or
        // a BufReader do): the ReadBuf it passes already holds `filled` bytes, new bytes must be appended behind them
        let accumulate = bsz % 4 == 3;
        let mut filled = 0usize;
        while left > 0 {
            let want = (left.min(buf.len() as u64)) as usize;
            if filled >= want { filled = 0; }
            let ts = now_us(t0);
            let rr = tokio::select! { biased;
                _ = abort.notified() => { dropped = true; break 'outer; }
                _ = async { match give_up { Some(d) => tokio::time::sleep_until(d).await, None => std::future::pending().await } } => { continue 'outer; }
                x = async {
                    if !accumulate { return r.read(&mut buf[..want]).await; }
                    let before = filled;
                    let after = std::future::poll_fn(|cx| {
                        let mut rb = tokio::io::ReadBuf::new(&mut buf[..want]);
                        rb.set_filled(before);
                        match tokio::io::AsyncRead::poll_read(std::pin::Pin::new(&mut r), cx, &mut rb) {
                            std::task::Poll::Ready(Ok(())) => std::task::Poll::Ready(Ok(rb.filled().len())),
                            std::task::Poll::Ready(Err(e)) => std::task::Poll::Ready(Err(e)),
                            std::task::Poll::Pending => std::task::Poll::Pending,
                        }
                    }).await?;
                    if after < before {
                        // the fill mark moved backwards: bytes the application had already been given are gone
                        return Err(std::io::Error::other(format!("HARNESS-OBSERVED: poll_read moved the fill mark of the caller's ReadBuf back from {before} to {after}")));
                    }
                    // hand the new bytes to the common path below (they sit behind the old ones)
                    let k = after - before;
                    buf.copy_within(before..after, 0);
                    // keep the chunk position so that the next call again passes a partly filled buffer
                    filled = if after < want { after } else { 0 };
                    Ok(k)
                } => x };
            match rr {
                Ok(0) => {
                    log.lock().eof = true;
                    push(&log, ts, AppEv::Eof);
                    ended = true;
                    continue 'outer;
                }
                Ok(k) => {
                    let keep = log.lock().keep_data;
                    let bad = if keep { None } else { stream.mismatch(off, &buf[..k]).map(|i| off + i as u64) };
                    off += k as u64;
                    left -= k as u64;
                    {
                        let mut g = log.lock();
                        g.read = off;
                        if g.keep_data {
                            g.read_data.extend_from_slice(&buf[..k]);
                        }
                        if g.first_bad_read_at.is_none() {
                            g.first_bad_read_at = bad;
                        }
                    }
                    push(&log, ts, AppEv::Read { n: k, bad_at: bad });
                }
                Err(e) => {
                    log.lock().read_err = Some(e.to_string());
                    push(&log, ts, AppEv::ReadErr(e.to_string()));
                    ended = true;
                    continue 'outer;
                }
            }
        }
    }
    if dropped {
        drop(r);
        push(&log, now_us(t0), AppEv::ReaderDropped);
        log.lock().reader_done = true;
    } else {
        push(&log, now_us(t0), AppEv::ScriptDone);
        log.lock().reader_done = true;
        std::future::pending::<()>().await;
        drop(r);
    }
}

/// Feed a fixed script into a fresh channel (the sender is dropped: the task then holds its
/// half until the scenario ends).
pub fn script_chan<T>(ops: Vec<T>) -> tokio::sync::mpsc::UnboundedReceiver<T> {
    let (tx, rx) = tokio::sync::mpsc::unbounded_channel();
    for o in ops {
        let _ = tx.send(o);
    }
    rx
}
