//! C09(b) — metamorphic trace equality under relabelling: the same scenario run with different initial
//! sequence numbers / connection ids (one run wrapping past 65535 mid-transfer) yields the same packet trace
//! once every sequence, ack and connection-id field is shifted by its run's base.
use std::collections::BTreeSet;

use proptest::prelude::*;
use serde::{Deserialize, Serialize};
use serde_json::Value;

use crate::engine::*;
use crate::model::refparse::{self, RefPacket};
use crate::props::c01;
use crate::sim::{
    WireRec,
    e2e::{self, RunResult, Scenario},
};

#[derive(Clone, Debug, Serialize, Deserialize)]
pub struct Case {
    pub sc: Scenario,
    /// second run: (connection-id base, initial sequence number) of connector and acceptor
    pub alt: [(u16, u16); 2],
}

fn strategy(tier: Tier) -> BoxedStrategy<Case> {
    let isn = || prop_oneof![
        // wraps after k packets
        6 => (1u32..400).prop_map(|k| (65536 - k) as u16),
        1 => (400u32..3000).prop_map(|k| (65536 - k) as u16),
        1 => Just(0u16), 1 => Just(1u16), 1 => Just(32767u16), 1 => Just(32768u16), 1 => any::<u16>(),
    ];
    let id = || prop_oneof![2 => Just(65535u16), 2 => Just(65534u16), 1 => Just(0u16), 2 => any::<u16>()];
    (c01::scenario_strategy(tier.pick(150_000, 600_000), tier.pick(250, 600)), id(), isn(), id(), isn(), 100u16..30_000, 100u16..30_000)
        .prop_map(|(mut sc, i0, s0, i1, s1, b0, b1)| {
            // first run: small numbers, far from any wrap
            sc.socks[0].rnd = vec![b0, b0.wrapping_add(7)];
            sc.socks[1].rnd = vec![b1, b1.wrapping_add(11)];
            sc.deadline_ms = 120_000;
            Case { sc, alt: [(i0, s0), (i1, s1)] }
        })
        .boxed()
}

#[derive(Debug, PartialEq, Eq)]
struct Norm {
    t_us: u64,
    from_connector: bool,
    ptype: u8,
    id_rel: u16,
    seq_rel: u16,
    ack_rel: Option<u16>,
    wnd: u32,
    ts: u32,
    ts_diff: u32,
    exts: Vec<(u8, Vec<u8>)>,
    payload_len: usize,
    payload_hash: u64,
    disp: String,
}

/// (normalised trace, packets sent by the connector / acceptor, problems)
fn normalise(log: &[WireRec]) -> Result<(Vec<Norm>, [u32; 2]), String> {
    let syn = log.iter().find_map(|r| r.pkt.as_ref().filter(|p| p.ptype == refparse::ST_SYN).map(|p| (r.src, p.clone())));
    let Some((connector, syn)) = syn else { return Ok((vec![], [0, 0])) };
    let acc_first: Option<RefPacket> = log.iter().find_map(|r| r.pkt.as_ref().filter(|_| r.src != connector).cloned());
    let base_id = syn.conn_id;
    let base_seq = [syn.seq, acc_first.as_ref().map(|p| p.seq).unwrap_or(0)];
    let mut out = vec![];
    let mut counts = [0u32; 2];
    for r in log {
        let Some(p) = &r.pkt else { return Err(format!("log #{}: datagram does not parse", r.idx)) };
        let fc = r.src == connector;
        let me = if fc { 0 } else { 1 };
        counts[me] = counts[me].max(p.seq.wrapping_sub(base_seq[me]) as u32);
        out.push(Norm {
            t_us: r.t_us,
            from_connector: fc,
            ptype: p.ptype,
            id_rel: p.conn_id.wrapping_sub(base_id),
            seq_rel: p.seq.wrapping_sub(base_seq[me]),
            // the SYN's ack field is a constant; before the acceptor has spoken its base is unknown to nobody
            ack_rel: if p.ptype == refparse::ST_SYN { None } else { Some(p.ack.wrapping_sub(base_seq[1 - me])) },
            wnd: p.wnd,
            ts: p.ts,
            ts_diff: p.ts_diff,
            exts: p.exts.clone(),
            payload_len: p.payload.len(),
            payload_hash: fnv64(&p.payload),
            disp: format!("{:?}", r.disp),
        });
    }
    Ok((out, counts))
}

fn app_summary(res: &RunResult) -> String {
    res.conns.iter().map(|c| format!("{:?}/{:?}|{}", c.connect_err, c.connected_at_us, c.ep.iter().map(|e| format!("w{} r{} eof{} re{:?} we{:?} bad{:?} n{}", e.written, e.read, e.eof, e.read_err, e.write_err, e.first_bad_read_at, e.recs.len())).collect::<Vec<_>>().join(";"))).collect::<Vec<_>>().join("||")
}

pub struct Relabel;
impl CheckDef for Relabel {
    type Case = Case;
    const NAME: &'static str = "relabel";
    fn strategy(tier: Tier) -> BoxedStrategy<Case> {
        strategy(tier)
    }
    fn run(case: &Case, trace: bool) -> Outcome {
        let r1 = e2e::run(&case.sc, false);
        let mut sc2 = case.sc.clone();
        sc2.socks[0].rnd = vec![case.alt[0].0, case.alt[0].1];
        sc2.socks[1].rnd = vec![case.alt[1].0, case.alt[1].1];
        let r2 = e2e::run(&sc2, trace);
        let (n1, _) = match normalise(&r1.log) { Ok(x) => x, Err(e) => return Outcome::discard(e) };
        let (n2, counts2) = match normalise(&r2.log) { Ok(x) => x, Err(e) => return Outcome::discard(e) };
        for (i, (a, b)) in n1.iter().zip(n2.iter()).enumerate() {
            if a != b {
                return Outcome::violation("relabel/trace-differs", format!("the runs differ at datagram #{i} although only the initial sequence numbers / connection ids differ (second run: ids {:?}/{:?}, ISNs {}/{}).\n  run 1: {}\n  run 2: {}\n  normalised 1: {:?}\n  normalised 2: {:?}", case.alt[0].0, case.alt[1].0, case.alt[0].1, case.alt[1].1, r1.log[i].line(), r2.log[i].line(), a, b));
            }
        }
        if n1.len() != n2.len() {
            let (longer, which) = if n1.len() > n2.len() { (&r1.log, 1) } else { (&r2.log, 2) };
            return Outcome::violation("relabel/trace-differs", format!("run {which} emits {} more datagram(s); the first extra one: {}", n1.len().abs_diff(n2.len()), longer[n1.len().min(n2.len())].line()));
        }
        let (a1, a2) = (app_summary(&r1), app_summary(&r2));
        if a1 != a2 {
            return Outcome::violation("relabel/application-differs", format!("the applications observe different things:\n  run 1: {a1}\n  run 2: {a2}"));
        }
        let mut o = Outcome::pass();
        let mut labels: BTreeSet<&'static str> = BTreeSet::new();
        // did the second run wrap in mid-transfer?
        let wrap = |isn: u16, count: u32| (isn as u32 + count) > 65535 && isn != 0;
        let w0 = wrap(case.alt[0].1, counts2[0]);
        let w1 = wrap(case.alt[1].1, counts2[1]);
        if w0 || w1 { labels.insert("seq_wrapped_mid_transfer"); }
        let retx = {
            let mut seen = BTreeSet::new();
            r2.log.iter().any(|r| r.from_stack && r.pkt.as_ref().is_some_and(|p| p.ptype == refparse::ST_DATA && !seen.insert((r.src, p.seq))))
        };
        if retx { labels.insert("retransmission"); }
        if r2.log.iter().any(|r| r.pkt.as_ref().is_some_and(|p| p.last_ext(1).is_some())) { labels.insert("selective_ack"); }
        if (w0 || w1) && retx { labels.insert("wrap_with_loss"); }
        o.nontrivial = (w0 || w1) && retx;
        o.labels = labels.into_iter().collect();
        let mut fp = Fp::default();
        for n in &n2 { fp.add(((n.ptype as u64) << 48) | ((n.seq_rel as u64) << 24) | n.payload_len as u64); fp.add(n.t_us); }
        o.fingerprint = fp.get();
        o
    }
}

pub fn run(ctx: &mut Ctx) {
    ctx.rule("(b) relabel: generated lossy end-to-end scenarios (transfers up to 150 KB / 600 KB both ways, adversarial drop/dup/delay plans, path-MTU black holes, all buffer/MTU configurations) are run twice: with small initial numbers, and with generated ones (75 % placing the 65535->0 wrap k = 1..400 / 3000 packets into the transfer, connection ids at 65534/65535/0). Oracle: the two wire logs are equal datagram by datagram (instant, direction, type, window, timestamps, extension bytes, payload, fate) with seq/ack/connection id taken relative to each run's bases, and the applications observe the same. non-trivial = the second run wrapped in mid-transfer and retransmitted something; distinct by hash of the normalised trace");
    ctx.replay_corpus::<Relabel>();
    ctx.run_generated::<Relabel>(ctx.tier.pick(12_000, 400_000));
}

pub fn replay(v: &Value) -> Option<i32> {
    replay_file::<Relabel>("C09", v)
}
