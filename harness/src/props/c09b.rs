//! C09(b) — metamorphic trace equality under relabelling (filled in once the simulator exists).
use crate::engine::*;
use serde_json::Value;
pub fn run(_ctx: &mut Ctx) {}
pub fn replay(_v: &Value) -> Option<i32> { None }
