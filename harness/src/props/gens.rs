//! Shared proptest strategies for socket configurations, application scripts and fault plans.
use proptest::prelude::*;

use crate::sim::{
    Family, Fate, NetPlan, SockCfg,
    app::{ROp, WOp},
};

/// Link MTUs from the smallest value with which a header plus a selective-ACK extension (30 bytes)
/// still fits one datagram: 58 (IPv4) / 78 (IPv6). Below that "selective ACKs are reported" (C04) and
/// "no datagram exceeds the link MTU" (C14) cannot both hold; the crate silently omits the SACK there.
pub fn link_mtu(v6: bool) -> BoxedStrategy<u16> {
    if v6 {
        prop_oneof![1 => 78u16..300, 1 => Just(1280u16), 1 => 1281u16..1500, 3 => Just(1500u16), 1 => Just(9000u16), 1 => 300u16..9000].boxed()
    } else {
        prop_oneof![1 => 58u16..200, 1 => Just(300u16), 2 => Just(576u16), 1 => Just(1000u16), 1 => Just(1280u16), 4 => Just(1500u16), 1 => Just(9000u16), 1 => 200u16..9000].boxed()
    }
}

/// C14 quantifies over *all* link MTU settings: the option is a u16, so one case in five lies above the jumbo-frame
/// size (loopback interfaces have 65536), up to the largest value the option accepts
pub fn link_mtu_wide(v6: bool) -> BoxedStrategy<u16> {
    prop_oneof![
        8 => link_mtu(v6),
        1 => 9000u16..=65535,
        1 => prop::sample::select(vec![16384u16, 16412, 16413, 16432, 16433, 32767, 32768, 32815, 32816, 40000, 65507, 65535]),
    ].boxed()
}

/// initial sequence numbers / connection ids: 25 % within 300 of the wrap
pub fn rnd_stream() -> BoxedStrategy<Vec<u16>> {
    prop::collection::vec(prop_oneof![3 => any::<u16>(), 1 => (65236u32..65536).prop_map(|x| x as u16), 1 => 0u16..300], 3..6).boxed()
}

#[derive(Clone, Copy, Debug)]
pub struct CfgRange {
    pub min_rx_segments: u32,
    pub small_buffers: bool,
}

pub fn sock_cfg(v6: bool, r: CfgRange) -> BoxedStrategy<SockCfg> {
    (
        link_mtu(v6),
        prop_oneof![2 => Just(1u32 << 20), 1 => Just(64u32 * 1024), 2 => 1u32..40, 1 => 1024u32..200_000],
        prop_oneof![3 => Just(32u32 * 1024), 1 => 256u32..4096, 1 => 4096u32..300_000, 1 => Just(1u32 << 20)],
        prop_oneof![3 => Just(1u32 << 20), 1 => 256u32..4096, 1 => 4096u32..300_000],
        prop::bool::weighted(0.7),
        0u8..4,
        prop::bool::weighted(0.7),
        rnd_stream(),
    )
        .prop_map(move |(link_mtu, rx_sel, tx_init, tx_max, nagle, probe_retx, wait_lastack, rnd)| {
            let mut c = SockCfg { v6, link_mtu, tx_init, tx_max, nagle, probe_retx, wait_lastack, rnd, ..SockCfg::default() };
            // rx buffer: either an absolute size or a multiple of the largest segment
            c.rx_buf = if rx_sel < 40 && r.small_buffers {
                (rx_sel.max(r.min_rx_segments)) * (c.max_payload() as u32).max(1)
            } else if rx_sel < 40 {
                1 << 20
            } else {
                rx_sel.max(r.min_rx_segments * c.max_payload() as u32)
            };
            c
        })
        .boxed()
}

pub fn writer_script(max_total: u32, end: BoxedStrategy<Option<WOp>>) -> BoxedStrategy<Vec<WOp>> {
    let chunk = prop_oneof![1 => 1u32..64, 2 => 64u32..2048, 2 => 2048u32..65536];
    let total = prop_oneof![1 => Just(0u32), 2 => 1u32..3000, 4 => 3000u32..60_000, 1 => 60_000u32..max_total.max(60_001)];
    (total, prop::collection::vec((1u32..1000, chunk, prop::option::weighted(0.25, prop_oneof![3 => 0u32..50, 1 => 50u32..3000]), prop::bool::weighted(0.15)), 1..6), end)
        .prop_map(|(total, parts, end)| {
            let wsum: u32 = parts.iter().map(|p| p.0).sum();
            let mut ops = vec![];
            let mut left = total;
            let np = parts.len();
            for (i, (w, chunk, sleep, flush)) in parts.into_iter().enumerate() {
                let n = if i + 1 == np { left } else { ((total as u64 * w as u64) / wsum as u64) as u32 }.min(left);
                left -= n;
                if n > 0 {
                    ops.push(WOp::Write { n, chunk });
                }
                if flush {
                    ops.push(WOp::Flush);
                }
                if let Some(ms) = sleep {
                    ops.push(WOp::Sleep(ms));
                }
            }
            if let Some(e) = end {
                ops.push(e);
            }
            ops
        })
        .boxed()
}

pub fn writer_end_any() -> BoxedStrategy<Option<WOp>> {
    prop_oneof![3 => Just(Some(WOp::Shutdown)), 1 => Just(Some(WOp::Flush)), 1 => Just(Some(WOp::Drop)), 1 => Just(None)].boxed()
}

pub fn reader_script(with_pauses: bool) -> BoxedStrategy<Vec<ROp>> {
    let bufsz = prop_oneof![1 => 1u32..16, 2 => 16u32..2048, 3 => 2048u32..65536];
    if with_pauses {
        (prop::collection::vec((1u32..20_000, bufsz.clone(), prop_oneof![3 => 0u32..40, 1 => 40u32..2500]), 0..4), bufsz)
            .prop_map(|(parts, last)| {
                let mut ops = vec![];
                for (n, buf, sleep) in parts {
                    ops.push(ROp::Read { n, buf });
                    if sleep > 0 {
                        ops.push(ROp::Sleep(sleep));
                    }
                }
                ops.push(ROp::ReadToEnd { buf: last });
                ops
            })
            .boxed()
    } else {
        bufsz.prop_map(|b| vec![ROp::ReadToEnd { buf: b }]).boxed()
    }
}

/// fault decisions with a per-case loss level
pub fn fates(max_len: usize) -> BoxedStrategy<Vec<Fate>> {
    (0u8..4)
        .prop_flat_map(move |level| {
            let (w_del, w_drop, w_dup, w_delay) = match level {
                0 => (96u32, 2u32, 1u32, 1u32),
                1 => (85, 8, 3, 4),
                2 => (65, 20, 5, 10),
                _ => (50, 30, 5, 15),
            };
            prop::collection::vec(
                prop_oneof![
                    w_del => Just(Fate::Deliver),
                    w_drop => Just(Fate::Drop),
                    w_dup => prop_oneof![0u16..5, 5u16..400].prop_map(Fate::Dup),
                    w_delay => prop_oneof![3 => 1u16..60, 1 => 60u16..3000].prop_map(Fate::Delay),
                ],
                0..max_len,
            )
        })
        .boxed()
}

pub fn fates_fair(max_len: usize, dmax_ms: u16) -> BoxedStrategy<Vec<Fate>> {
    (0u8..3)
        .prop_flat_map(move |level| {
            let (w_del, w_drop, w_dup, w_delay) = match level {
                0 => (94u32, 3u32, 1u32, 2u32),
                1 => (82, 10, 3, 5),
                _ => (65, 20, 5, 10),
            };
            prop::collection::vec(
                prop_oneof![
                    w_del => Just(Fate::Deliver),
                    w_drop => Just(Fate::Drop),
                    w_dup => (0u16..dmax_ms).prop_map(Fate::Dup),
                    w_delay => (1u16..dmax_ms).prop_map(Fate::Delay),
                ],
                0..max_len,
            )
        })
        .boxed()
}

pub fn latency() -> BoxedStrategy<(u16, u16)> {
    prop_oneof![
        3 => (1u16..60).prop_map(|l| (l, l)),
        1 => (1u16..200, 1u16..200),
        1 => (60u16..200).prop_map(|l| (l, l)),
    ]
    .boxed()
}

pub fn net_adversarial(max_fates: usize) -> BoxedStrategy<NetPlan> {
    (latency(), fates(max_fates), prop::option::weighted(0.08, 5u32..1500))
        .prop_map(|(lat_ms, fates, cut_at)| NetPlan { family: Family::Adversarial, lat_ms, path_mtu: (None, None), fates, cut_at })
        .boxed()
}
