//! C18 — Nagle coalescing: no partial segment while earlier data is unacknowledged (engine SP).
use std::collections::BTreeSet;

use proptest::prelude::*;
use serde::{Deserialize, Serialize};
use serde_json::Value;

use crate::engine::*;
use crate::model::{
    bytestream, refparse,
    sender::{SenderObs, TxKind},
};
use crate::props::gens;
use crate::sim::{
    SockCfg,
    app::{AppEv, ROp, Stream, WOp},
    sp::{self, Ev, PeerOp, SpCase, SpResult, Step},
};

#[derive(Clone, Debug, Serialize, Deserialize)]
pub struct Case {
    pub sp: SpCase,
    pub window_limited: bool,
}

fn strategy(tier: Tier) -> BoxedStrategy<Case> {
    let max_writes = tier.pick(40usize, 80);
    (any::<bool>(), any::<bool>(), prop::bool::weighted(0.6), prop::bool::weighted(0.2), prop::bool::weighted(0.35))
        .prop_flat_map(move |(v6, probing, nagle, window_limited, holes)| {
            let link = if probing { gens::link_mtu(v6) } else if v6 { prop_oneof![Just(1280u16), 200u16..1280].boxed() } else { prop_oneof![Just(576u16), 100u16..576].boxed() };
            (link, gens::rnd_stream(), any::<bool>(), any::<u16>(), any::<u16>(), any::<u64>())
                .prop_flat_map(move |(link_mtu, rnd, incoming, peer_isn, conn_id, key)| {
                    let sock = SockCfg { v6, link_mtu, nagle, rnd, tx_init: 1 << 20, tx_max: 1 << 20, inactivity_ms: 600_000, ..SockCfg::default() };
                    let mss = sock.min_payload().max(1) as u32;
                    let wnd: BoxedStrategy<u32> = if window_limited { prop_oneof![(1u32..3 * mss), Just(mss), (mss..8 * mss)].boxed() } else { Just(64u32 << 20).boxed() };
                    let size = prop_oneof![3 => 1u32..mss.max(2), 2 => Just(mss), 2 => mss..(5 * mss + 1), 1 => Just(1u32), 1 => Just(mss - mss.min(1) + 1)];
                    let wnd2 = wnd.clone();
                    let step = prop_oneof![
                        8 => size.prop_map(|n| Step::W(WOp::Write { n, chunk: 1 << 20 })),
                        3 => prop_oneof![Just(1u32), Just(3), Just(10), Just(39), Just(45), Just(120)].prop_map(Step::Adv),
                        4 => wnd2.clone().prop_map(|wnd| Step::Peer(PeerOp::Ack { back: 0, wnd, sack: None })),
                        2 => wnd2.clone().prop_map(|wnd| Step::Peer(PeerOp::AckAdv { adv: 1, wnd, sack: None })),
                        // a packet went missing and the peer says which later ones it holds (honest selective ack)
                        // (in a third of the cases)
                        (holes as u32) => (0u16..4, 0u8..2, 1u8..3, wnd2.clone()).prop_map(|(adv, skip, count, wnd)| Step::Peer(PeerOp::SackHeld { adv, skip, count, wnd })),
                        // … or simply repeats an older acknowledgement
                        (holes as u32) => (1i16..4, wnd2.clone()).prop_map(|(back, wnd)| Step::Peer(PeerOp::Ack { back, wnd, sack: None })),
                    ];
                    (prop::collection::vec(step, 1..max_writes), wnd)
                        .prop_map(move |(mut steps, peer_wnd)| {
                            steps.insert(0, Step::R(ROp::ReadToEnd { buf: 4096 }));
                            // drain: acknowledge everything a few times so that any held tail leaves
                            for _ in 0..6 {
                                steps.push(Step::Adv(5));
                                steps.push(Step::Peer(PeerOp::Ack { back: 0, wnd: if window_limited { 8 * mss } else { 64 << 20 }, sack: None }));
                            }
                            steps.push(Step::Adv(20));
                            Case { sp: SpCase { sock: sock.clone(), incoming, peer_isn, conn_id, peer_wnd, complete_handshake: true, key, steps, linger_ms: 50, discipline: true, bystander: None }, window_limited }
                        })
                })
        })
        .boxed()
}

pub fn oracle(case: &Case, res: &SpResult) -> (Option<(String, String)>, Vec<&'static str>, bool, u64) {
    let c = &case.sp;
    let mut labels: BTreeSet<&'static str> = BTreeSet::new();
    let mut fp = Fp::default();
    macro_rules! viol {
        ($sig:expr, $($arg:tt)*) => { return (Some(($sig.to_string(), format!($($arg)*))), vec![], false, 0) };
    }
    let first = res.sock_first_seq.unwrap_or(0);
    let sock = res.sock_addr.unwrap();
    let peer = res.peer_addr.unwrap();
    let probing = c.sock.max_payload() > c.sock.min_payload();
    let mut obs = SenderObs::new(first, c.peer_wnd, c.sock.min_payload());
    // no byte lost, duplicated or reordered by coalescing
    let rep = bytestream::check_direction(&res.log, sock, peer, res.id_to_peer, Stream::new(c.key, 0));
    if let Some((idx, seq, why)) = rep.bad {
        viol!("content", "log #{idx} seq {seq}: {why}");
    }
    let writes: Vec<(u64, u64, usize)> = res.app.iter().filter_map(|a| if let AppEv::Wrote(n) = a.ev { Some((a.ord, a.t_us, n)) } else { None }).collect();
    let written_by_ord = |ord: u64| -> u64 { writes.iter().filter(|(o, _, _)| *o < ord).map(|(_, _, n)| *n as u64).sum() };
    let mut last_rx_t: Option<u64> = None;
    let mut handshake_done = false;
    // first instant at which the acknowledgements amount to evidence of loss (duplicates / selective acks: the
    // congestion window may shrink from then on, the slow-start allowance below no longer holds)
    let mut loss_evidence_t: Option<u64> = None;
    let mut first_tx_bytes: u64 = 0;
    let (mut last_data_tx_t, mut last_data_tx_t_earlier): (Option<u64>, Option<u64>) = (None, None);
    let mut any_retx = false;
    let mut small_while_outstanding = false;
    let mut drained_events: Vec<(u64, usize, u64)> = vec![]; // (t, log idx, ord) at which everything outstanding got acked
    let mut tx_first_times: Vec<(u64, u64)> = vec![]; // (t, ord) of first transmissions

    for ev in sp::events(res) {
        match ev {
            Ev::Rx(r, p) => {
                if p.ptype == refparse::ST_SYN || p.conn_id != res.id_to_sock { continue; }
                handshake_done = true;
                let unacked_before = obs.unacked_count(&obs.st);
                obs.on_rx(r.t_us, p);
                last_rx_t = Some(r.t_us);
                if obs.st.poss_loss_event && loss_evidence_t.is_none() { loss_evidence_t = Some(r.t_us); labels.insert("loss_evidence_seen"); }
                if unacked_before > 0 && obs.unacked_count(&obs.st) == 0 && p.wnd > 0 {
                    drained_events.push((r.t_us, r.idx, r.ord));
                }
            }
            Ev::Tx(r, p) => {
                if p.conn_id != res.id_to_peer || !handshake_done || p.ptype != refparse::ST_DATA { continue; }
                let ambiguous = last_rx_t == Some(r.t_us);
                let (k, kind) = obs.on_tx_data(r.t_us, p);
                let prev_data_tx_t = last_data_tx_t.filter(|t| *t < r.t_us).or(last_data_tx_t_earlier);
                if last_data_tx_t != Some(r.t_us) { last_data_tx_t_earlier = last_data_tx_t; last_data_tx_t = Some(r.t_us); }
                if kind == TxKind::Retransmission { any_retx = true; continue; }
                first_tx_bytes += p.payload.len() as u64;
                tx_first_times.push((r.t_us, r.ord));
                let written = written_by_ord(r.ord);
                // the segment size it could have used: proven size (a lower bound when probing)
                let could = obs.st.mss_now.min(if probing { obs.st.mss_now } else { c.sock.min_payload() });
                let len = p.payload.len();
                if len < could {
                    // under which ack states was earlier data unacknowledged?
                    let states = if ambiguous { vec![&obs.st, &obs.prev] } else { vec![&obs.st] };
                    let earlier_unacked = states.iter().all(|s| obs.segs.range((s.cum + 1)..k).any(|(j, _)| !s.sacked.contains(j)));
                    // window limited? the window remaining for this segment under the model
                    let window_limits = states.iter().any(|s| {
                        let out_before: u64 = obs.outstanding(s, k) - len as u64;
                        (s.wnd as u64).saturating_sub(out_before) <= len as u64 || (s.wnd as u64) < could as u64
                    });
                    if earlier_unacked { small_while_outstanding = true; }
                    if c.sock.nagle && earlier_unacked && !window_limits && !any_retx && !case.window_limited {
                        viol!("partial-segment-while-unacked", "log #{}: Nagle is on, seq {} carries {} bytes (< segment size {}) although earlier data (from seq {}) is still unacknowledged and the peer window ({}) does not limit it; {} bytes had been written", r.idx, p.seq, len, could, first.wrapping_add((obs.st.cum + 1) as u16), obs.st.wnd, written);
                    }
                    if earlier_unacked && window_limits { labels.insert("window_limited_partial"); }
                    // "unless the peer's window is what limits it" — a window below one segment is not by itself such a
                    // limit: it limits a segment only if the segment fills the room that is left. Decidable from the wire
                    // when the cut is provably fresh: the segment leaves at the instant of a write, carries exactly the
                    // bytes not transmitted before (so nothing had been cut earlier under another window), no peer packet
                    // arrives at that instant, and the previous transmission is too recent for a timer to be involved.
                    if c.sock.nagle && earlier_unacked && !any_retx && !ambiguous {
                        let untransmitted_before = written.saturating_sub(first_tx_bytes - len as u64);
                        let fresh = untransmitted_before == len as u64;
                        let at_write = writes.iter().any(|(_, tw, _)| *tw == r.t_us);
                        let recent = prev_data_tx_t.is_some_and(|pt| r.t_us - pt < 150_000);
                        let s = &obs.st;
                        let room = (s.wnd as u64).saturating_sub(obs.outstanding(s, k) - len as u64);
                        if fresh && at_write && recent { labels.insert("fresh_partial_cut_checked"); }
                        if fresh && at_write && recent && room > len as u64 {
                            viol!("partial-segment-window-has-room", "log #{}: Nagle is on, seq {} carries {} bytes — all that was buffered — while earlier data (from seq {}) is unacknowledged; the peer's window ({}) leaves room for {} bytes, so it is not what limits this segment, which should have waited for the acknowledgement", r.idx, p.seq, len, first.wrapping_add((obs.st.cum + 1) as u16), s.wnd, room);
                        }
                    }
                    if !c.sock.nagle && earlier_unacked { labels.insert("nagle_off_small_sent"); }
                } else if written > 0 && writes.iter().filter(|(o, _, _)| *o < r.ord).count() >= 2 && len == could {
                    labels.insert("full_segment");
                }
                fp.add(((len as u64) << 8) ^ obs.unacked_count(&obs.st) as u64);
            }
        }
    }
    let written_total: u64 = writes.iter().map(|(_, _, n)| *n as u64).sum();
    // everything written was eventually transmitted (the scenario ends with repeated ack-all)
    // (only when the run ended quiescent: everything transmitted was acknowledged, so nothing but a
    // stall can explain buffered bytes)
    let all_sent_acked = obs.unacked_count(&obs.st) == 0;
    // (a size probe that expired is re-cut under the same number and its tail travels under the next ones: count
    // every number with the size of its final cut)
    let first_tx_bytes: u64 = obs.segs.values().map(|g| *g.lens.last().unwrap_or(&0) as u64).sum();
    if res.write_err.is_none() && res.read_err.is_none() && first_tx_bytes != written_total && !case.window_limited && rep.indeterminate_from.is_none() && all_sent_acked {
        viol!("bytes-not-transmitted", "{} bytes were written but first transmissions carry {} bytes although the peer acknowledged everything repeatedly at the end", written_total, first_tx_bytes);
    }
    // when the pipe drains the held tail leaves at that same instant
    if c.sock.nagle && !case.window_limited && !any_retx {
        for (t, idx, ord) in &drained_events {
            let written = written_by_ord(*ord);
            let sent_before: u64 = {
                // bytes first-transmitted before this ack
                let mut s = 0u64;
                let mut seen = BTreeSet::new();
                for r in &res.log {
                    if r.ord >= *ord { break; }
                    if r.src == sock { if let Some(p) = &r.pkt { if p.ptype == refparse::ST_DATA && p.conn_id == res.id_to_peer && seen.insert(p.seq) { s += p.payload.len() as u64; } } }
                }
                s
            };
            if written > sent_before {
                labels.insert("tail_held");
                let flushed = tx_first_times.iter().any(|(tt, o)| *tt == *t && *o > *ord);
                if !flushed {
                    viol!("held-tail-not-flushed", "log #{idx}: the ack delivered at t={t} us acknowledged everything outstanding while {} written bytes were still held back, but no data left at that instant", written - sent_before);
                }
                labels.insert("tail_held_then_flushed");
            }
        }
    }
    // Nagle off, no probing: after every write everything buffered is sent at that instant as long
    // as slow start and the window allow it
    // (with size probing an outstanding probe holds later data back by design — "at most one probe, and it is the
    // newest segment": instants at which a segment larger than every acknowledged one is outstanding are exempt)
    if !c.sock.nagle && !any_retx && !case.window_limited {
        let mss = c.sock.min_payload() as u64;
        // "whenever the connection next processes an event everything buffered is sent": evaluated
        // at every instant at which a peer packet is delivered (an event the connection processes)
        let rx_times: BTreeSet<u64> = res.log.iter().filter(|r| r.dst == sock && r.idx >= res.steps_from_idx && r.pkt.as_ref().is_some_and(|p| p.conn_id == res.id_to_sock && p.ptype != refparse::ST_SYN)).map(|r| r.t_us).collect();
        for t in rx_times {
            if loss_evidence_t.is_some_and(|l| t >= l) { break; }
            let written: u64 = writes.iter().filter(|w| w.1 <= t).map(|w| w.2 as u64).sum();
            let mut sent = 0u64;
            let mut seen = BTreeSet::new();
            let mut acked_rel = -1i32;
            let mut sacked_rel: BTreeSet<i32> = BTreeSet::new();
            let mut lens: Vec<(i32, u64)> = vec![];
            for r in &res.log {
                if r.t_us > t { break; }
                let Some(p) = &r.pkt else { continue };
                if r.src == sock && p.ptype == refparse::ST_DATA && p.conn_id == res.id_to_peer && seen.insert(p.seq) {
                    sent += p.payload.len() as u64;
                    lens.push((crate::model::seq::dist(p.seq, first), p.payload.len() as u64));
                }
                // acks delivered at a strictly earlier instant certainly count; the one at t may not have been processed before a racing write
                if r.dst == sock && p.conn_id == res.id_to_sock && p.ptype != refparse::ST_SYN && r.t_us < t {
                    acked_rel = acked_rel.max(crate::model::seq::dist(p.ack, first));
                    let a = crate::model::seq::dist(p.ack, first);
                    for (i, b) in p.sack_bits().iter().enumerate() { if *b { sacked_rel.insert(a + 2 + i as i32); } }
                }
            }
            // writes at the very instant t may have happened after the packet was processed
            let written_before: u64 = writes.iter().filter(|w| w.1 < t).map(|w| w.2 as u64).sum();
            let _ = written;
            if written_before > sent {
                let acked: u64 = lens.iter().filter(|(k, _)| *k <= acked_rel).map(|(_, l)| *l).sum();
                let outstanding: u64 = lens.iter().filter(|(k, _)| *k > acked_rel).map(|(_, l)| *l).sum();
                // (the next cut may be a size probe: up to the link's largest payload)
                let next = (written_before - sent).min(if probing { c.sock.max_payload() as u64 } else { mss });
                let proven = lens.iter().filter(|(k, _)| *k <= acked_rel).map(|(_, l)| *l).max().unwrap_or(0).max(mss);
                // (a probe the peer has selectively acknowledged is delivered: it holds nothing back any more)
                let real_probe_outstanding = lens.iter().any(|(k, l)| *k > acked_rel && !sacked_rel.contains(k) && *l > proven);
                if lens.iter().any(|(k, l)| *k > acked_rel && sacked_rel.contains(k) && *l > proven) { labels.insert("sacked_probe_behind_hole_at_event"); }
                if real_probe_outstanding { labels.insert("probe_outstanding_at_event"); }
                // (the congestion window is kept as a float in segment units: two bytes of slack for its truncation)
                if outstanding + next + 2 <= 2 * mss + acked && !real_probe_outstanding {
                    viol!("nagle-off-held-back", "Nagle is off: after the peer packet delivered at t={t} us was processed {} bytes written earlier stay untransmitted although only {} bytes are outstanding (slow-start allowance 2*{} + {} acked) and the window is huge", written_before - sent, outstanding, mss, acked);
                }
                labels.insert("cwnd_limited_at_event");
            } else {
                labels.insert("nagle_off_all_sent_at_event");
            }
        }
    }
    if small_while_outstanding { labels.insert("small_while_outstanding"); }
    if c.sock.nagle { labels.insert("nagle_on"); } else { labels.insert("nagle_off"); }
    if probing { labels.insert("probing_on"); }
    // non-trivial: a write smaller than mss issued while data was outstanding
    let mss = c.sock.min_payload();
    let mut nontrivial = false;
    {
        // approximate from the logs: a small write at an instant where unacked data existed
        let mut sent_unacked_at: Vec<(u64, bool)> = vec![];
        let mut o2 = SenderObs::new(first, c.peer_wnd, mss);
        for ev in sp::events(res) {
            match ev {
                Ev::Rx(r, p) => { if p.ptype != refparse::ST_SYN && p.conn_id == res.id_to_sock { o2.on_rx(r.t_us, p); sent_unacked_at.push((r.ord, o2.unacked_count(&o2.st) > 0)); } }
                Ev::Tx(r, p) => { if p.ptype == refparse::ST_DATA && p.conn_id == res.id_to_peer { o2.on_tx_data(r.t_us, p); sent_unacked_at.push((r.ord, true)); } }
            }
        }
        for (ord, _, n) in &writes {
            if *n < mss {
                if let Some((_, u)) = sent_unacked_at.iter().rev().find(|(o, _)| o < ord) { if *u { nontrivial = true; } }
            }
        }
    }
    (None, labels.into_iter().collect(), nontrivial, fp.get())
}

pub struct Sp;
impl CheckDef for Sp {
    type Case = Case;
    const NAME: &'static str = "sp";
    fn strategy(tier: Tier) -> BoxedStrategy<Case> {
        strategy(tier)
    }
    fn run(case: &Case, trace: bool) -> Outcome {
        let res = sp::run(&case.sp, trace);
        if !res.established {
            return Outcome::discard(format!("handshake did not complete: {:?}", res.handshake_err));
        }
        let (v, labels, nontrivial, fp) = oracle(case, &res);
        if let Some((sig, detail)) = v {
            return Outcome::violation(format!("sp/{sig}"), detail);
        }
        let mut o = Outcome::pass();
        o.labels = labels;
        o.nontrivial = nontrivial;
        o.fingerprint = fp;
        o
    }
}

pub fn run(ctx: &mut Ctx) {
    ctx.rule("SP: generated write-size sequences (1 B..5*mss, up to 40/80 writes) with gaps, scripted peer ACK timings (immediate, delayed, batched, one at a time), both Nagle settings, with and without MTU probing, in a third of the cases honest selective acks behind a hole and repeated older acks, peer window huge or small (window_limited class: only 'no byte lost'). Oracle: Nagle on => no first transmission smaller than the usable segment size while earlier data is unacknowledged unless the window limits it (a provably fresh cut — at the instant of a write, carrying exactly the untransmitted bytes — is limited by the window only if it fills the room that is left: checked in every class); the held tail leaves at the instant the pipe drains; Nagle off => at every processed peer packet everything buffered leaves within the slow-start allowance (until the acks first amount to loss evidence; not while a real, not selectively acknowledged, size probe is outstanding); concatenation of first transmissions == bytes written. non-trivial = a write smaller than mss issued while data was outstanding; distinct by hash of (segment length, #unacked) sequence");
    ctx.replay_corpus::<Sp>();
    ctx.run_generated::<Sp>(ctx.tier.pick(60_000, 2_500_000));
}

pub fn replay(v: &Value) -> Option<i32> {
    replay_file::<Sp>("C18", v)
}
