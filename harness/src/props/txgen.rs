//! Generator of sender-side SP scenarios (the endpoint writes; the scripted peer acknowledges).
//! Shared by C05, C06, C18, C19.
use proptest::prelude::*;

use crate::props::gens;
use crate::sim::{
    SockCfg,
    app::WOp,
    sp::{PeerOp, SpCase, Step},
};

#[derive(Clone, Copy, Debug, PartialEq, Eq)]
pub enum AckClass {
    /// cumulative acks and window updates only (plus silence -> RTO)
    Cumulative,
    /// every kind of acknowledgement history: duplicates, SACK bitmaps of any length, stale
    /// acks, acks beyond what was sent, peer data
    Full,
}

#[derive(Clone, Copy, Debug)]
pub struct TxGen {
    pub class: AckClass,
    pub max_steps: usize,
    /// generate small / zero / shrinking windows
    pub window_games: bool,
    pub max_write: u32,
    pub long_silence: bool,
}

pub fn tx_sock_cfg() -> BoxedStrategy<SockCfg> {
    any::<bool>()
        .prop_flat_map(|v6| {
            (
                // half of the cases without MTU probing (link <= protocol minimum)
                prop_oneof![3 => Just(if v6 { 1280u16 } else { 576u16 }), 1 => if v6 { (78u16..1280).boxed() } else { (58u16..576).boxed() }, 4 => gens::link_mtu(v6)],
                prop_oneof![3 => Just(32u32 * 1024), 1 => 64u32..4096, 1 => 4096u32..300_000],
                prop_oneof![3 => Just(1u32 << 20), 1 => 256u32..4096, 1 => 4096u32..300_000],
                prop::bool::weighted(0.7),
                1u8..8,
                0u8..3,
                gens::rnd_stream(),
            )
                .prop_map(move |(link_mtu, tx_init, tx_max, nagle, max_retx, probe_retx, rnd)| SockCfg { v6, link_mtu, tx_init, tx_max, nagle, max_retx, probe_retx, rnd, ..SockCfg::default() })
        })
        .boxed()
}

pub fn window(games: bool) -> BoxedStrategy<u32> {
    if games {
        prop_oneof![4 => Just(1u32 << 20), 2 => 2000u32..100_000, 2 => 1u32..2000, 2 => Just(0u32), 1 => Just(u32::MAX)].boxed()
    } else {
        prop_oneof![Just(1u32 << 20), Just(4u32 << 20)].boxed()
    }
}

pub fn sack_bytes() -> BoxedStrategy<Vec<u8>> {
    prop_oneof![
        3 => prop::collection::vec(prop_oneof![Just(0u8), Just(1), Just(3), Just(7), any::<u8>()], 8),
        1 => prop::collection::vec(any::<u8>(), 1),
        1 => prop::collection::vec(any::<u8>(), 4),
        1 => prop::collection::vec(any::<u8>(), 32),
        1 => prop::collection::vec(Just(0u8), 8),
    ]
    .boxed()
}

pub fn strategy(g: TxGen) -> BoxedStrategy<SpCase> {
    (tx_sock_cfg(), any::<bool>(), any::<u16>(), any::<u16>(), any::<u64>(), window(g.window_games))
        .prop_flat_map(move |(sock, incoming, peer_isn, conn_id, key, peer_wnd)| {
            let wnd = window(g.window_games);
            let chunk = prop_oneof![1 => 1u32..64, 2 => 64u32..2048, 3 => 2048u32..70_000];
            let n = prop_oneof![2 => 1u32..600, 3 => 600u32..8000, 2 => 8000u32..g.max_write.max(8001)];
            let adv = prop_oneof![3 => Just(1u32), 2 => Just(5u32), 2 => Just(20u32), 2 => Just(50u32), 2 => Just(100u32), 2 => Just(250u32), 1 => Just(500u32), 1 => Just(1300u32), 1 => 1u32..3000];
            let silence = if g.long_silence { prop_oneof![3 => 3_000u32..20_000, 1 => 20_000u32..140_000].boxed() } else { (1000u32..3000).boxed() };
            let mut choices: Vec<(u32, BoxedStrategy<Step>)> = vec![
                (6, (n, chunk).prop_map(|(n, chunk)| Step::W(WOp::Write { n, chunk })).boxed()),
                (8, (prop_oneof![3 => Just(1u16), 2 => 1u16..8, 2 => Just(1000u16), 1 => Just(0u16)], wnd.clone()).prop_map(|(adv, wnd)| Step::Peer(PeerOp::AckAdv { adv, wnd, sack: None })).boxed()),
                (3, wnd.clone().prop_map(|wnd| Step::Peer(PeerOp::Ack { back: 0, wnd, sack: None })).boxed()),
                (6, adv.prop_map(Step::Adv).boxed()),
                (1, silence.prop_map(Step::Adv).boxed()),
                (1, Just(Step::W(WOp::Flush)).boxed()),
            ];
            // bidirectional traffic (both classes): payload — any size the link carries, so also above the socket's
            // current segment size —, cumulative acknowledgement and a window update on one packet
            choices.push((2, (prop_oneof![2 => 1u16..600, 3 => 600u16..1500, 1 => 1500u16..9000], wnd.clone()).prop_map(|(len, wnd)| Step::Peer(PeerOp::DataAckWnd { len, wnd })).boxed()));
            choices.push((1, wnd.clone().prop_map(|wnd| Step::Peer(PeerOp::DupDataWnd { wnd })).boxed()));
            if g.class == AckClass::Full {
                choices.push((3, (1u8..7).prop_map(|n| Step::Peer(PeerOp::DupAck(n))).boxed()));
                choices.push((4, (0i16..6, wnd.clone(), sack_bytes()).prop_map(|(back, wnd, s)| Step::Peer(PeerOp::Ack { back, wnd, sack: Some(s) })).boxed()));
                choices.push((2, (0u16..4, wnd.clone(), sack_bytes()).prop_map(|(adv, wnd, s)| Step::Peer(PeerOp::AckAdv { adv, wnd, sack: Some(s) })).boxed()));
                // stale acks and acks beyond what was sent
                choices.push((1, (prop_oneof![1i16..40, -40i16..0], wnd.clone()).prop_map(|(back, wnd)| Step::Peer(PeerOp::Ack { back, wnd, sack: None })).boxed()));
                choices.push((1, (1u16..600).prop_map(|len| Step::Peer(PeerOp::Data { dseq: 0, len })).boxed()));
            }
            let step = proptest::strategy::Union::new_weighted(choices);
            (prop::collection::vec(step, 1..g.max_steps), prop_oneof![3 => Just(None), 1 => Just(Some(WOp::Shutdown)), 1 => Just(Some(WOp::Drop))])
                .prop_map(move |(mut steps, end)| {
                    // a read is pending throughout, so that a failure of the connection surfaces
                    steps.insert(0, Step::R(crate::sim::app::ROp::ReadToEnd { buf: 4096 }));
                    if let Some(e) = end {
                        steps.push(Step::W(e));
                        steps.push(Step::Adv(300));
                    }
                    SpCase { sock: sock.clone(), incoming, peer_isn, conn_id, peer_wnd, complete_handshake: true, key, steps, linger_ms: 500, discipline: true, bystander: None }
                })
        })
        .boxed()
}
