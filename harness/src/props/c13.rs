//! C13 — connect/accept pair up one-to-one, in order, with a bounded backlog (MC engine).
//!
//! Instants are arranged so that no two events whose order matters share a virtual instant: SYNs are sent
//! and arrive at even milliseconds (even call times, even latency), accept calls are issued and abandoned
//! at odd milliseconds.
use std::collections::{BTreeMap, BTreeSet, VecDeque};

use proptest::prelude::*;
use serde::{Deserialize, Serialize};
use serde_json::Value;

use crate::engine::*;
use crate::model::refparse;
use crate::sim::{
    Family, NetPlan, SockCfg,
    mc::{self, CallOut, McAccept, McCase, McConn, McEvent, McResult},
};

#[derive(Clone, Debug, Serialize, Deserialize)]
pub struct Case {
    pub mc: McCase,
    pub class: String,
    /// connects that must succeed (abandon class, phase 2)
    pub must_succeed: Vec<usize>,
}

/// more retained requests than this without any RESET count as an unbounded backlog (the crate retains 32)
const BACKLOG_SANITY: usize = 64;

fn sock(v6: bool, limit: u16, rnd: Vec<u16>) -> SockCfg {
    SockCfg { v6, max_live: limit, rnd, inactivity_ms: 10_000, ..SockCfg::default() }
}

fn rnd() -> BoxedStrategy<Vec<u16>> {
    prop::collection::vec(prop_oneof![3 => any::<u16>(), 1 => 0u16..3, 1 => 65533u16..=65535], 2..6).boxed()
}

fn distinct_sorted(times: Vec<u32>) -> Vec<u32> {
    let mut seen = BTreeSet::new();
    let mut out = vec![];
    for mut t in times {
        while !seen.insert(t) {
            t += 2;
        }
        out.push(t);
    }
    out
}

fn net(lat_half: u16) -> NetPlan {
    NetPlan { family: Family::LossFree, lat_ms: (2 * lat_half, 2 * lat_half), path_mtu: (None, None), fates: vec![], cut_at: None }
}

fn fifo_strategy(tier: Tier) -> BoxedStrategy<Case> {
    let max_n = tier.pick(20usize, 31);
    (any::<bool>(), 1usize..4, prop_oneof![7 => Just(64u16), 3 => 2u16..7], 1u16..40, 2usize..=max_n)
        .prop_flat_map(move |(v6, nclients, limit, lat_half, n)| {
            (
                prop::collection::vec(rnd(), nclients + 1),
                prop::collection::vec((1usize..=nclients, 0u32..200, 0u32..300, 0u32..300, 3000u32..5000, any::<u64>()), n),
                prop::collection::vec((0u32..300, prop::option::weighted(0.3, 1u32..200)), n..n + 4),
                prop::collection::vec(1u32..1250, 0..4),
                prop::collection::vec(any::<u16>(), 4),
            )
                .prop_map(move |(rnds, conns, accs, dup_at, dup_pick)| {
                    let mut socks = vec![sock(v6, limit, rnds[0].clone())];
                    for r in &rnds[1..] {
                        socks.push(sock(v6, 64, r.clone()));
                    }
                    // connect calls at distinct even ms
                    let times = distinct_sorted(conns.iter().map(|c| 2 * c.1).collect());
                    let conns: Vec<McConn> = conns.iter().zip(times).map(|(c, at)| McConn { from: c.0, to: 0, at_ms: at, patience_ms: Some(20_000), n_a: c.2, n_b: c.3, hold_ms: c.4, key: c.5 }).collect();
                    // accept calls at distinct odd ms, abandoned at odd ms
                    let atimes = distinct_sorted(accs.iter().map(|a| 2 * a.0 + 1).collect());
                    let accepts: Vec<McAccept> = accs.iter().zip(atimes).map(|(a, at)| McAccept { sock: 0, at_ms: at, patience_ms: a.1.map(|p| 2 * p) }).collect();
                    let events = dup_at.iter().zip(dup_pick.iter()).map(|(t, f)| (2 * t, McEvent::DupSyn(*f))).collect();
                    Case { mc: McCase { socks, net: net(lat_half), conns, accepts, events, end_ms: 60_000 }, class: "fifo".into(), must_succeed: vec![] }
                })
        })
        .boxed()
}

fn backlog_strategy(_tier: Tier) -> BoxedStrategy<Case> {
    (any::<bool>(), 1usize..4, 1u16..40, 0usize..3)
        .prop_flat_map(move |(v6, nclients, lat_half, early_acc)| {
            (
                prop::collection::vec(rnd(), nclients + 1),
                // up to 4 pending connects per client
                prop::collection::vec(prop::collection::vec((0u32..500, 0u32..200, 0u32..200, any::<u64>()), 0..=4), nclients),
                prop::collection::vec((0u32..500, prop_oneof![1 => 1u8..10, 2 => 10u8..40], any::<u16>()), 1..5),
                0usize..45,
            )
                .prop_map(move |(rnds, per_client, ghosts, late_acc)| {
                    let mut socks = vec![sock(v6, 64, rnds[0].clone())];
                    for r in &rnds[1..] {
                        socks.push(sock(v6, 64, r.clone()));
                    }
                    let mut raw = vec![];
                    for (ci, v) in per_client.iter().enumerate() {
                        for c in v {
                            raw.push((ci + 1, 2 * c.0, c.1, c.2, c.3));
                        }
                    }
                    let times = distinct_sorted(raw.iter().map(|c| c.1).collect());
                    let conns: Vec<McConn> = raw.iter().zip(times).map(|(c, at)| McConn { from: c.0, to: 0, at_ms: at, patience_ms: Some(30_000), n_a: c.2, n_b: c.3, hold_ms: 500, key: c.4 }).collect();
                    let mut accepts = vec![];
                    for j in 0..early_acc {
                        accepts.push(McAccept { sock: 0, at_ms: 1 + 2 * j as u32, patience_ms: None });
                    }
                    // all SYNs have arrived by 500*2 + 80 + ghosts; accepts start at 3001
                    for j in 0..late_acc {
                        accepts.push(McAccept { sock: 0, at_ms: 3001 + 2 * j as u32, patience_ms: None });
                    }
                    // ghost SYNs are injected (arrive) at even ms + latency-free: use even instants that no connect uses
                    let events = ghosts.iter().map(|(t, n, id0)| (2 * t + 1000, McEvent::GhostSyns { to: 0, n: *n, id0: *id0 })).collect();
                    Case { mc: McCase { socks, net: net(lat_half), conns, accepts, events, end_ms: 60_000 }, class: "backlog".into(), must_succeed: vec![] }
                })
        })
        .boxed()
}

fn abandon_strategy(_tier: Tier) -> BoxedStrategy<Case> {
    (any::<bool>(), 1u16..40, 0u8..3)
        .prop_flat_map(move |(v6, lat_half, variant)| {
            (
                prop::collection::vec(rnd(), 2),
                prop::collection::vec((0u32..1000, 50u32..750), 1..14),
                prop::collection::vec((0u32..1000, 1u32..500), 0..45),
                1usize..=4,
                prop::collection::vec((0u32..200, 0u32..200, any::<u64>()), 4),
            )
                .prop_map(move |(rnds, early, dead_acc, n2, c2)| {
                    let socks = vec![sock(v6, 64, rnds[0].clone()), sock(v6, 64, rnds[1].clone())];
                    let mut conns = vec![];
                    let mut accepts = vec![];
                    let mut events = vec![];
                    // phase 1: connect calls from socket 0 to listener 1 that will be abandoned
                    let times = distinct_sorted(early.iter().map(|e| 2 * e.0).collect());
                    for (e, at) in early.iter().zip(times) {
                        conns.push(McConn { from: 0, to: 1, at_ms: at, patience_ms: Some(2 * e.1), n_a: 0, n_b: 0, hold_ms: 0, key: 0 });
                    }
                    match variant {
                        0 => {
                            // their SYNs are lost
                            events.push((0, McEvent::CutDir { from: 0, to: 1 }));
                            events.push((6000, McEvent::HealDir { from: 0, to: 1 }));
                        }
                        1 => {
                            // their SYNs wait in the listener's queue; nobody accepts in phase 1
                        }
                        _ => {
                            // the listener's accept calls of phase 1 are all abandoned before any SYN arrives
                            events.push((0, McEvent::CutDir { from: 0, to: 1 }));
                            events.push((6000, McEvent::HealDir { from: 0, to: 1 }));
                            let at = distinct_sorted(dead_acc.iter().map(|a| 2 * a.0 + 1).collect());
                            for (a, t) in dead_acc.iter().zip(at) {
                                accepts.push(McAccept { sock: 1, at_ms: t, patience_ms: Some(2 * a.1) });
                            }
                        }
                    }
                    // phase 2: n2 simultaneous connects that must succeed; enough live accept calls for everything queued
                    let first = conns.len();
                    let mut must = vec![];
                    for j in 0..n2 {
                        must.push(first + j);
                        // one after the other (each completes within a round trip): the number of connects one socket may
                        // have pending towards one address is an internal constant, not part of the property
                        conns.push(McConn { from: 0, to: 1, at_ms: 7000 + 400 * j as u32, patience_ms: Some(20_000), n_a: c2[j].0, n_b: c2[j].1, hold_ms: 100, key: c2[j].2 });
                    }
                    let n_acc = if variant == 1 { early.len() + n2 } else { n2 };
                    for j in 0..n_acc {
                        accepts.push(McAccept { sock: 1, at_ms: 6501 + 2 * j as u32, patience_ms: None });
                    }
                    Case { mc: McCase { socks, net: net(lat_half), conns, accepts, events, end_ms: 60_000 }, class: format!("abandon{variant}"), must_succeed: must }
                })
        })
        .boxed()
}

#[derive(Clone, Debug)]
struct Arrival {
    t_us: u64,
    src: std::net::SocketAddr,
    id: u16,
    seq: u16,
    /// plan of the connect call that sent it (None: ghost)
    ci: Option<usize>,
    dup: bool,
}

pub fn oracle(case: &Case, res: &McResult) -> Outcome {
    let mc = &case.mc;
    let mut out = Outcome::pass();
    let mut labels: BTreeSet<&'static str> = BTreeSet::new();
    macro_rules! viol {
        ($sig:expr, $($arg:tt)*) => { return Outcome { verdict: Verdict::Violation { signature: $sig.to_string(), detail: format!($($arg)*) }, ..out } };
    }
    let lat_us = mc.net.lat_ms.0 as u64 * 1000;
    // ---- which connect call sent which SYN: per client socket, SYNs leave in call order, refused calls send none
    let mut syn_owner: BTreeMap<usize, usize> = BTreeMap::new(); // log idx -> ci
    for s in 0..mc.socks.len() {
        let mut calls: Vec<usize> = (0..mc.conns.len()).filter(|ci| mc.conns[*ci].from == s && !matches!(res.conns[*ci].out, CallOut::Err(..) | CallOut::NotCalled)).collect();
        calls.sort_by_key(|ci| (res.conns[*ci].call_at_us, *ci));
        let syns: Vec<&crate::sim::WireRec> = res.log.iter().filter(|r| r.from_stack && r.src == res.addrs[s] && r.pkt.as_ref().is_some_and(|p| p.ptype == refparse::ST_SYN)).collect();
        if syns.len() != calls.len() {
            viol!("syn-count", "socket {s} issued {} connect calls that were not refused but emitted {} SYNs", calls.len(), syns.len());
        }
        for (ci, r) in calls.iter().zip(syns.iter()) {
            syn_owner.insert(r.idx, *ci);
        }
    }
    for (ci, c) in res.conns.iter().enumerate() {
        match &c.out {
            CallOut::Ok(_) | CallOut::Abandoned(_) => {}
            CallOut::Err(_, e) if (e.contains("TooManyActiveConnections") || e.contains("too many")) => { labels.insert("connect_refused"); }
            other => viol!("connect-outcome", "connect #{ci} ended as {:?}", other),
        }
    }
    // ---- per listener: arrivals, accept calls, the reference queue
    let listeners: BTreeSet<usize> = mc.accepts.iter().map(|a| a.sock).chain(mc.conns.iter().map(|c| c.to)).collect();
    let mut by_token: BTreeMap<usize, Vec<usize>> = BTreeMap::new();
    for (k, a) in res.accs.iter().enumerate() {
        if let (CallOut::Ok(_), Some(ci)) = (&a.out, a.token) {
            by_token.entry(ci).or_default().push(k);
        }
        if a.token_garbled {
            viol!("garbled-token", "accept #{k} returned a stream from {:?} whose first bytes are not a token", a.remote);
        }
    }
    for (ci, ks) in &by_token {
        if ks.len() > 1 {
            viol!("token-twice", "the token of connect #{ci} was delivered by {} accepted streams (accept calls {:?}): one connect, more than one accepted stream", ks.len(), ks);
        }
    }
    for &l in &listeners {
        let la = res.addrs[l];
        // arrivals in delivery order
        let mut arrivals: Vec<Arrival> = vec![];
        for r in &res.log {
            let Some(p) = &r.pkt else { continue };
            if p.ptype != refparse::ST_SYN || r.dst != la { continue; }
            let crate::sim::Disposition::Deliver(ts) = &r.disp else { continue };
            for t in ts {
                arrivals.push(Arrival { t_us: *t, src: r.src, id: p.conn_id, seq: p.seq, ci: syn_owner.get(&r.idx).copied(), dup: false });
            }
        }
        // an injected copy belongs to the call that sent the original
        let owners: BTreeMap<(std::net::SocketAddr, u16), usize> = arrivals.iter().filter_map(|a| a.ci.map(|c| ((a.src, a.id), c))).collect();
        for a in arrivals.iter_mut() {
            if a.ci.is_none() { a.ci = owners.get(&(a.src, a.id)).copied(); }
        }
        arrivals.sort_by_key(|a| a.t_us); // stable: log order within one instant
        let mut seen: BTreeSet<(std::net::SocketAddr, u16)> = BTreeSet::new();
        for a in arrivals.iter_mut() {
            if !seen.insert((a.src, a.id)) {
                a.dup = true;
                labels.insert("dup_syn");
            }
        }
        // accept calls on this listener in call order
        let mut calls: Vec<usize> = (0..mc.accepts.len()).filter(|k| mc.accepts[*k].sock == l && !matches!(res.accs[*k].out, CallOut::NotCalled)).collect();
        calls.sort_by_key(|k| (res.accs[*k].call_at_us, *k));
        // reference model of the accept queue (connection limit never reached in the classes that use it)
        let unlimited = mc.socks[l].max_live as usize >= arrivals.len().min(calls.len());
        #[derive(Debug)]
        enum Ev { Syn(usize), Call(usize), Abandon(usize) }
        let mut evs: Vec<(u64, u8, Ev)> = vec![];
        for (i, a) in arrivals.iter().enumerate() { evs.push((a.t_us, 1, Ev::Syn(i))); }
        for &k in &calls {
            evs.push((res.accs[k].call_at_us, 0, Ev::Call(k)));
            if let CallOut::Abandoned(t) = res.accs[k].out { evs.push((t, 2, Ev::Abandon(k))); }
            else if let Some(p) = mc.accepts[k].patience_ms { evs.push((res.accs[k].call_at_us + p as u64 * 1000, 2, Ev::Abandon(k))); }
        }
        evs.sort_by_key(|e| (e.0, e.1));
        let mut expect_match: BTreeMap<usize, usize> = BTreeMap::new(); // accept call -> arrival
        let mut expect_rst: BTreeSet<usize> = BTreeSet::new();
        // The size of the backlog is not part of the property ("a fixed backlog"): it is read off the first RESET the
        // listener sends (the number of requests the model holds at that arrival) and must then hold throughout.
        // Without any RESET the backlog is at least what was retained; more than BACKLOG_SANITY retained requests
        // without a RESET count as unbounded.
        // (requests from unbound addresses come one per address: the address identifies them even if the RESET's id is
        // wrong; requests of real clients are identified by their id)
        let rst_for = |ar: &Arrival| res.log.iter().any(|r| r.from_stack && r.src == la && r.dst == ar.src && r.t_us >= ar.t_us && r.pkt.as_ref().is_some_and(|p| p.ptype == refparse::ST_RESET && (ar.ci.is_none() || p.conn_id == ar.id)));
        let backlog: usize = {
            let mut q: VecDeque<usize> = VecDeque::new();
            let mut waiting: VecDeque<usize> = VecDeque::new();
            let mut acc: BTreeSet<(std::net::SocketAddr, u16)> = BTreeSet::new();
            let mut found = usize::MAX;
            'pre: for (_, _, ev) in &evs {
                match ev {
                    Ev::Call(k) => waiting.push_back(*k),
                    Ev::Abandon(k) => waiting.retain(|x| x != k),
                    Ev::Syn(i) => {
                        if arrivals[*i].dup && (acc.contains(&(arrivals[*i].src, arrivals[*i].id)) || q.iter().any(|j| arrivals[*j].src == arrivals[*i].src && arrivals[*j].id == arrivals[*i].id)) { continue; }
                        if waiting.is_empty() && !arrivals[*i].dup && rst_for(&arrivals[*i]) { found = q.len(); break 'pre; }
                        q.push_back(*i);
                    }
                }
                while let (Some(&i), Some(_)) = (q.front(), waiting.front()) {
                    q.pop_front();
                    if acc.contains(&(arrivals[i].src, arrivals[i].id)) { continue; }
                    waiting.pop_front();
                    acc.insert((arrivals[i].src, arrivals[i].id));
                }
                if q.len() > BACKLOG_SANITY {
                    viol!("backlog-unbounded", "listener {l}: {} unaccepted requests are retained and no RESET was ever sent: the backlog is not bounded (sanity limit {})", q.len(), BACKLOG_SANITY);
                }
            }
            found
        };
        if backlog == 0 {
            viol!("reset-below-backlog", "listener {l}: a RESET was sent for a request that arrived when no unaccepted request was retained at all");
        }
        if unlimited {
            let mut q: VecDeque<usize> = VecDeque::new();
            let mut waiting: VecDeque<usize> = VecDeque::new();
            let mut accepted_ids: BTreeSet<(std::net::SocketAddr, u16)> = BTreeSet::new();
            for (_, _, ev) in &evs {
                match ev {
                    Ev::Call(k) => waiting.push_back(*k),
                    Ev::Abandon(k) => waiting.retain(|x| x != k),
                    Ev::Syn(i) => {
                        // a duplicate of a request that is queued, or accepted and still alive (by construction), is ignored
                        if arrivals[*i].dup && (accepted_ids.contains(&(arrivals[*i].src, arrivals[*i].id)) || q.iter().any(|j| arrivals[*j].src == arrivals[*i].src && arrivals[*j].id == arrivals[*i].id)) { continue; }
                        if !waiting.is_empty() {
                        } else if q.len() >= backlog {
                            expect_rst.insert(*i);
                            continue;
                        }
                        q.push_back(*i);
                    }
                }
                while let (Some(&i), Some(&k)) = (q.front(), waiting.front()) {
                    q.pop_front();
                    if accepted_ids.contains(&(arrivals[i].src, arrivals[i].id)) { continue; } // queued duplicate: dropped, acceptor kept
                    waiting.pop_front();
                    accepted_ids.insert((arrivals[i].src, arrivals[i].id));
                    expect_match.insert(k, i);
                }
            }
            // compare
            for &k in &calls {
                let a = &res.accs[k];
                match (&a.out, expect_match.get(&k)) {
                    (CallOut::Ok(_), Some(&i)) => {
                        let ar = &arrivals[i];
                        if a.remote != Some(ar.src) {
                            viol!("fifo-order", "listener {l}: accept call #{k} (issued at t={} us) should receive the request that arrived at t={} us from {} (id {}) but returned a stream from {:?}", a.call_at_us, ar.t_us, ar.src, ar.id, a.remote);
                        }
                        if let (Some(tok), Some(ci)) = (a.token, ar.ci) {
                            if tok != ci {
                                viol!("fifo-order", "listener {l}: accept call #{k} should receive connect #{ci} (its SYN arrived at t={} us) but its stream delivered the token of connect #{tok}", ar.t_us);
                            }
                        }
                        if let Some(ci) = ar.ci {
                            // wired to each other: if the connector was still waiting when the SYN-ACK arrived, it is Ok and its token arrives
                            let synack_at = match a.out { CallOut::Ok(t) => t + lat_us, _ => 0 };
                            let gave_up = mc.conns[ci].patience_ms.map(|p| res.conns[ci].call_at_us + p as u64 * 1000).unwrap_or(u64::MAX);
                            if synack_at + 1000 < gave_up {
                                if !matches!(res.conns[ci].out, CallOut::Ok(_)) {
                                    viol!("accepted-but-connect-not-ok", "listener {l}: accept call #{k} accepted the request of connect #{ci} at t={} us, the SYN-ACK reached the connector before it gave up (t={} us), yet the connect call ended as {:?}", synack_at - lat_us, gave_up, res.conns[ci].out);
                                }
                                if a.token != Some(ci) {
                                    viol!("not-wired", "listener {l}: accept call #{k} accepted the request of connect #{ci}, which completed, but the accepted stream delivered token {:?}", a.token);
                                }
                                labels.insert("paired");
                            } else {
                                labels.insert("accepted_dead_connector");
                            }
                        } else {
                            labels.insert("accepted_ghost");
                        }
                    }
                    (CallOut::Ok(_), None) => viol!("unexpected-accept", "listener {l}: accept call #{k} returned a stream from {:?} although no connection request was due to it (requests: {}, of which refused {})", a.remote, arrivals.len(), expect_rst.len()),
                    (CallOut::Pending | CallOut::Abandoned(_), Some(&i)) => viol!("accept-starved", "listener {l}: accept call #{k} (issued at t={} us) should have received the request that arrived at t={} us from {} but ended as {:?}", a.call_at_us, arrivals[i].t_us, arrivals[i].src, a.out),
                    (CallOut::Err(_, e), _) => viol!("accept-error", "listener {l}: accept call #{k} failed: {e}"),
                    _ => {}
                }
            }
            // resets: exactly the refused requests, at their arrival instant
            for (i, ar) in arrivals.iter().enumerate() {
                let rst = res.log.iter().find(|r| r.from_stack && r.src == la && r.dst == ar.src && r.pkt.as_ref().is_some_and(|p| p.ptype == refparse::ST_RESET && p.conn_id == ar.id) && r.t_us >= ar.t_us);
                match (expect_rst.contains(&i), rst) {
                    (true, None) => viol!("backlog-no-reset", "listener {l}: the request from {} (id {}) arrived at t={} us when {} unaccepted requests were already retained, but no RESET was sent (the first RESET of this run fixed the backlog at that number)", ar.src, ar.id, ar.t_us, backlog),
                    (true, Some(r)) => {
                        if r.t_us != ar.t_us { viol!("backlog-reset-late", "listener {l}: the RESET for the refused request from {} (id {}) left at t={} us, the request arrived at t={} us", ar.src, ar.id, r.t_us, ar.t_us); }
                        let p = r.pkt.as_ref().unwrap();
                        if p.ack != ar.seq { viol!("backlog-reset-form", "listener {l}: the RESET for request id {} acknowledges {} instead of the SYN's sequence number {}", ar.id, p.ack, ar.seq); }
                        labels.insert("backlog_reset");
                    }
                    (false, Some(r)) => {
                        // a RESET for a retained request (or a duplicate of one that was refused earlier: same id)
                        let refused_same = arrivals.iter().enumerate().any(|(j, o)| expect_rst.contains(&j) && o.src == ar.src && o.id == ar.id);
                        if !refused_same {
                            viol!("reset-below-backlog", "listener {l}: a RESET (log #{}) was sent for the request from {} (id {}) although fewer than {} requests (the backlog this run's first RESET revealed) were retained when it arrived", r.idx, ar.src, ar.id, backlog);
                        }
                    }
                    (false, None) => {}
                }
            }
            if !expect_rst.is_empty() { labels.insert("backlog_full"); }
        } else {
            // limited listener: order only — the streams handed to accept calls, taken in call order, follow the
            // arrival order of the (non-duplicate) requests
            labels.insert("limited_listener");
            // whatever the limit does to the requests, a waiting accept call is never failed by it: it waits (the
            // socket lives to the end of the run)
            for &k in &calls {
                if let CallOut::Err(t, e) = &res.accs[k].out {
                    viol!("accept-error", "listener {l} (connection limit {}): accept call #{k} (issued at t={} us) failed at t={t} us: {e}", mc.socks[l].max_live, res.accs[k].call_at_us);
                }
            }
            let firsts: Vec<&Arrival> = arrivals.iter().filter(|a| !a.dup).collect();
            let oks: Vec<usize> = calls.iter().copied().filter(|k| matches!(res.accs[*k].out, CallOut::Ok(_))).collect();
            // abandoned calls never consume a request, so the j-th Ok call (in call order) holds the j-th request —
            // provided calls complete in call order, which FIFO matching implies
            for (j, &k) in oks.iter().enumerate() {
                let Some(ar) = firsts.get(j) else { viol!("unexpected-accept", "listener {l}: {} accept calls returned streams but only {} distinct requests arrived", oks.len(), firsts.len()) };
                let a = &res.accs[k];
                if a.remote != Some(ar.src) || (a.token.is_some() && ar.ci.is_some() && a.token != ar.ci) {
                    viol!("fifo-order", "listener {l}: the {j}-th accept call to return (call #{k}) should hold the {j}-th request (connect {:?} from {}, arrived t={} us) but holds a stream from {:?} with token {:?}", ar.ci, ar.src, ar.t_us, a.remote, a.token);
                }
            }
        }
        if arrivals.iter().filter(|a| !a.dup).count() >= 8 { labels.insert("eight_or_more_requests"); }
        if calls.iter().any(|k| matches!(res.accs[*k].out, CallOut::Abandoned(_))) { labels.insert("accept_abandoned"); }
    }
    // ---- every successful connect is matched by exactly one accepted stream, and the two are wired to each other
    for (ci, c) in res.conns.iter().enumerate() {
        if let CallOut::Ok(_) = c.out {
            let Some(ks) = by_token.get(&ci) else { viol!("connect-without-accept", "connect #{ci} succeeded but no accepted stream delivered its token (loss-free network)") };
            let a = &res.accs[ks[0]];
            if c.stream.bad_at.is_some() || a.stream.bad_at.is_some() || c.stream.extra_bytes > 0 || a.stream.extra_bytes > 0 {
                viol!("not-wired", "connect #{ci} and accept #{}: the streams do not carry each other's bytes (connector bad_at {:?} extra {}, acceptor bad_at {:?} extra {})", ks[0], c.stream.bad_at, c.stream.extra_bytes, a.stream.bad_at, a.stream.extra_bytes);
            }
            if c.stream.complete_at_us.is_none() || a.stream.complete_at_us.is_none() {
                viol!("not-wired", "connect #{ci} and accept #{}: the exchange did not complete on a loss-free network (connector read {}/{}, acceptor read {}/{})", ks[0], c.stream.read_ok, mc.conns[ci].n_b, a.stream.read_ok, mc.conns[ci].n_a);
            }
        }
        if matches!(c.out, CallOut::Abandoned(_)) { labels.insert("connect_abandoned"); }
    }
    // ---- abandoned calls released what they reserved
    for &ci in &case.must_succeed {
        if !matches!(res.conns[ci].out, CallOut::Ok(_)) {
            viol!("starved-after-abandon", "connect #{ci} (issued at t={} us after every earlier call had been abandoned, with live accept calls waiting) ended as {:?}", res.conns[ci].call_at_us, res.conns[ci].out);
        }
        labels.insert("after_abandon_ok");
    }
    labels.insert(match case.class.as_str() { "fifo" => "class_fifo", "backlog" => "class_backlog", "abandon0" => "class_abandon_syn_lost", "abandon1" => "class_abandon_syn_queued", _ => "class_abandon_accepts" });
    out.labels = labels.iter().copied().collect();
    out.nontrivial = by_token.len() >= 2 || labels.contains("backlog_reset") || labels.contains("after_abandon_ok");
    let mut fp = Fp::default();
    for c in &res.conns { fp.add(match &c.out { CallOut::Ok(t) => *t, CallOut::Err(t, _) => *t ^ 1, CallOut::Abandoned(t) => *t ^ 2, _ => 3 }); }
    for a in &res.accs { fp.add(a.token.map(|t| t as u64 + 1).unwrap_or(0)); fp.add(match &a.out { CallOut::Ok(t) => *t, _ => 7 }); }
    fp.add(res.log.len() as u64);
    out.fingerprint = fp.get();
    out
}

macro_rules! def_check {
    ($ty:ident, $name:expr, $strat:ident) => {
        pub struct $ty;
        impl CheckDef for $ty {
            type Case = Case;
            const NAME: &'static str = $name;
            fn strategy(tier: Tier) -> BoxedStrategy<Case> {
                $strat(tier)
            }
            fn run(case: &Case, trace: bool) -> Outcome {
                let res = mc::run(&case.mc, trace);
                oracle(case, &res)
            }
        }
    };
}
def_check!(Fifo, "fifo", fifo_strategy);
def_check!(Backlog, "backlog", backlog_strategy);
def_check!(Abandon, "abandon", abandon_strategy);

pub fn run(ctx: &mut Ctx) {
    ctx.rule("MC on a loss-free network with events placed at distinct instants (SYNs at even, accept calls and their abandonment at odd milliseconds). fifo: 2..20/31 connect calls from 1..3 client sockets, accept calls (30 % abandoned) before and after the requests, duplicate SYNs re-injected while the original is queued or alive, listener limit 64 or 2..6 (limited listener: order of the streams handed out; no accept call ever fails). backlog: up to 12 real and up to 76 raw SYNs from unbound addresses, 0..2 early and 0..44 late accept calls. abandon: connect calls abandoned while their SYN is lost / queued, accept calls abandoned before any request, then 1..4 connects, one after the other, that must succeed. Oracle: a reference model of the two FIFO queues (32 requests) predicts for every accept call which request it receives and for every request whether a RESET leaves at its arrival instant; every Ok connect has exactly one accepted stream delivering its token and the two streams carry each other's keyed bytes to completion; an accepted request whose connector still waits completes that connect. non-trivial = two or more pairs, a backlog RESET, or a post-abandon success; distinct by outcome hash");
    ctx.assume("SYNs of one socket leave in the order of its connect calls (refused calls send none); duplicates arrive while the original is queued or its connection alive (connections are held >= 3 s, duplicates injected within 2.5 s)");
    ctx.replay_corpus::<Fifo>();
    ctx.replay_corpus::<Backlog>();
    ctx.replay_corpus::<Abandon>();
    ctx.run_generated::<Fifo>(ctx.tier.pick(20_000, 1_000_000));
    ctx.run_generated::<Backlog>(ctx.tier.pick(10_000, 500_000));
    ctx.run_generated::<Abandon>(ctx.tier.pick(10_000, 500_000));
}

pub fn replay(v: &Value) -> Option<i32> {
    match v.get("check").and_then(|c| c.as_str()) {
        Some("backlog") => replay_file::<Backlog>("C13", v),
        Some("abandon") => replay_file::<Abandon>("C13", v),
        _ => replay_file::<Fifo>("C13", v),
    }
}
