//! C05 — Sender obeys the peer's advertised window and slow-start growth (engine SP).
use std::collections::BTreeSet;

use proptest::prelude::*;
use serde::{Deserialize, Serialize};
use serde_json::Value;

use crate::engine::*;
use crate::model::{
    refparse,
    sender::{AckState, SenderObs, TxKind},
};
use crate::props::txgen::{self, AckClass, TxGen};
use crate::sim::sp::{self, Ev, SpCase, SpResult};

#[derive(Clone, Debug, Serialize, Deserialize)]
pub struct Case {
    pub sp: SpCase,
}

pub const F9_SIG: &str = "C05/rto-path-first-transmission";

pub fn oracle(case: &SpCase, res: &SpResult, soft: &mut Vec<(String, String)>) -> (Option<(String, String)>, Vec<&'static str>, bool, u64) {
    let mut labels: BTreeSet<&'static str> = BTreeSet::new();
    let mut fp = Fp::default();
    let first = res.sock_first_seq.unwrap_or(0);
    let mut obs = SenderObs::new(first, case.peer_wnd, case.sock.min_payload());
    let mut loss_seen = false; // any RTO retransmission or possible recovery so far
    let mut rto_pending: Option<(i32, u64)> = None; // (rel seq retransmitted by timeout, n_rx at that time)
    let mut last_rx_t: Option<u64> = None;
    let mut t_arm_latest: Option<u64> = None; // last instant at which the retransmission timer was (re)armed for sure
    let mut first_tx_count = 0u32;
    let mut wnd_values: Vec<u32> = vec![case.peer_wnd];
    let mut zero_seen = false;
    let mut handshake_done = false;
    let app_writes: Vec<(u64, u64)> = res.app.iter().filter_map(|a| if let crate::sim::app::AppEv::Wrote(n) = a.ev { Some((a.t_us, n as u64)) } else { None }).collect();
    let app_write_times: BTreeSet<u64> = res.app.iter().filter(|a| matches!(a.ev, crate::sim::app::AppEv::Wrote(_))).map(|a| a.t_us).collect();

    // segments are cut ahead of their transmission and the probe flag is decided then: give the model the write
    // times so that it takes the proven size at the earliest possible cut (cf. C06)
    { let mut cum = 0u64; for (t, n) in &app_writes { cum += *n; obs.writes.push((*t, cum)); } }
    let mut t_arm_next: Option<u64> = None;
    // (instant, number of peer packets delivered at it, seq of the last one if it carried data)
    let mut rx_now: (u64, u32, Option<u16>) = (u64::MAX, 0, None);
    // ack_nr of the socket's own packets: (last value emitted before the current instant, current instant, latest value)
    let mut own_ack: (Option<u16>, u64, Option<u16>) = (None, u64::MAX, None);
    for ev in sp::events(res) {
        let t_ev = match &ev { Ev::Rx(r, _) | Ev::Tx(r, _) => r.t_us };
        if let Some(a) = t_arm_next { if t_ev > a { t_arm_latest = Some(t_arm_latest.map_or(a, |x| x.max(a))); t_arm_next = None; } }
        match ev {
            Ev::Rx(r, p) => {
                if p.conn_id != res.id_to_sock && p.ptype != refparse::ST_SYN { continue; }
                if p.ptype == refparse::ST_SYN { continue; }
                handshake_done = true;
                obs.on_rx(r.t_us, p);
                last_rx_t = Some(r.t_us);
                if rx_now.0 == r.t_us { rx_now.1 += 1; } else { rx_now = (r.t_us, 1, None); }
                rx_now.2 = if p.ptype == refparse::ST_DATA { Some(p.seq) } else { None };
                if obs.st.t_last_advance == r.t_us { t_arm_latest = Some(r.t_us); }
                if obs.st.poss_recovery { labels.insert("possible_recovery"); }
                if obs.st.poss_loss_event { loss_seen = true; labels.insert("possible_loss_event"); }
                else if obs.st.ever_sack { labels.insert("sack_without_loss_event"); }
                if wnd_values.last() != Some(&p.wnd) {
                    if p.wnd == 0 { zero_seen = true; labels.insert("zero_window"); }
                    else if zero_seen && wnd_values.last() == Some(&0) { labels.insert("zero_window_then_reopen"); }
                    if p.wnd > 0 && (p.wnd as usize) < obs.st.mss_now { labels.insert("window_lt_mss"); }
                    if wnd_values.last().is_some_and(|w| *w > p.wnd) { labels.insert("window_shrank"); }
                    wnd_values.push(p.wnd);
                }
                if let Some((_, n)) = rto_pending {
                    // an advancing ack ends the single-segment phase
                    if obs.st.t_last_advance == r.t_us && obs.st.n_rx > n { rto_pending = None; }
                }
            }
            Ev::Tx(r, p) => {
                if p.conn_id != res.id_to_peer || !handshake_done { continue; }
                if own_ack.1 != r.t_us { own_ack = (own_ack.2, r.t_us, own_ack.2); }
                let ack_before_instant = own_ack.0;
                own_ack.2 = Some(p.ack);
                if p.ptype != refparse::ST_DATA { continue; }
                let ambiguous = last_rx_t == Some(r.t_us);
                // (K1 sharpened) the one peer packet of this instant was a data packet and this emission acknowledges it,
                // which nothing emitted before this instant did: the packet — acknowledgement, window and all — has been
                // processed, the emission is a reaction to it
                let processed = ambiguous && rx_now.0 == r.t_us && rx_now.1 == 1 && rx_now.2 == Some(p.ack) && ack_before_instant != Some(p.ack);
                if processed { labels.insert("reaction_to_peer_data_proven"); }
                let two_states = ambiguous && !processed;
                // emitted at an instant with neither a peer packet nor an application write:
                // only a timer can have caused it
                // ... and it may have caused it when a stimulus happens to fall on the very instant the retransmission
                // timer expires. That timer is (re)armed when data is sent and when an ack advances, and runs for at
                // least 200 ms: if the last such event is >= 200 ms back, the known timer-path finding (F9) may explain
                // what is emitted at this instant, whatever else happened at it.
                // (a timer is pending only while bytes accepted from the application before this instant are unacknowledged)
                let written_before: u64 = app_writes.iter().filter(|(t, _)| *t < r.t_us).map(|(_, n)| *n).sum();
                let timer_possible = t_arm_latest.is_some_and(|a| r.t_us >= a + 200_000) && written_before > obs.st.acked_bytes.min(obs.prev.acked_bytes);
                let timer_driven = !ambiguous && !app_write_times.contains(&r.t_us);
                let f9_possible = timer_driven || timer_possible;
                let sig = |generic: &str| if f9_possible { F9_SIG.to_string() } else { format!("sp/{generic}") };
                let highest_before = obs.highest;
                let mut loss_seen_next = false;
                let (k, kind) = obs.on_tx_data(r.t_us, p);
                let states: Vec<AckState> = if two_states { vec![obs.st.clone(), obs.prev.clone()] } else { vec![obs.st.clone()] };
                // clause (d): after an RTO retransmission nothing else until an advancing ack
                if let Some((rk, _)) = rto_pending {
                    let resegmented = obs.segs.get(&k).is_some_and(|g| g.lens.len() >= 2 && g.lens[g.lens.len() - 1] != g.lens[g.lens.len() - 2]);
                    if k != rk && !resegmented && !ambiguous {
                        // the timed-out segment may have been an oversize probe whose expiry is by
                        // design not a real RTO (re-segmentation follows); detect via length change of rk
                        // (… or with the same length, when the peer's own payloads have meanwhile proven the probe's size:
                        // then only the number of its transmissions tells — cf. C06, K21)
                        let probe_expired = obs.segs.get(&rk).is_some_and(|g| g.lens.windows(2).any(|w| w[0] != w[1]) || (g.first_payload.len() > g.mss_at_first && g.lens.len() >= case.sock.probe_retx as usize + 2));
                        if !probe_expired {
                            return (Some(("sp/more-than-one-segment-after-rto".into(), format!("log #{}: data seq {} sent although seq {} had just been retransmitted by timeout and no new data has been acknowledged since", r.idx, p.seq, first.wrapping_add(rk as u16)))), vec![], false, 0);
                        }
                    }
                    if resegmented { rto_pending = None; }
                }
                match kind {
                    TxKind::First => {
                        first_tx_count += 1;
                        if f9_possible {
                            // (possibly) sent by the retransmission-timer path (see F9): for the implementation
                            // this was a timeout, i.e. a loss event, whatever the oracle thinks of it
                            loss_seen_next = true;
                            labels.insert("first_tx_by_timer");
                        }
                        // (b) zero window: no new payload at all
                        if states.iter().all(|s| s.wnd == 0) {
                            { let d = format!("log #{}: first transmission of seq {} ({} bytes) while the last window processed is 0", r.idx, p.seq, p.payload.len()); if f9_possible { if soft.len() < 4 { soft.push((F9_SIG.to_string(), d)); } } else { return (Some((sig("new-payload-at-zero-window"), d)), vec![], false, 0); } }
                        }
                        // (a) outside possible loss recovery outstanding <= last advertised window
                        let viol_a = states.iter().all(|s| !s.poss_recovery && !obs.prev.poss_recovery && obs.outstanding(s, k) > s.wnd as u64);
                        if viol_a {
                            let s = &states[0];
                            { let d = format!("log #{}: after the first transmission of seq {} ({} bytes) {} bytes are outstanding but the window last advertised by the peer is {}", r.idx, p.seq, p.payload.len(), obs.outstanding(s, k), s.wnd); if f9_possible { if soft.len() < 4 { soft.push((F9_SIG.to_string(), d)); } } else { return (Some((sig("outstanding-exceeds-window"), d)), vec![], false, 0); } }
                        }
                        // (c) before the first loss event: outstanding <= 2*mss + acked bytes
                        if !loss_seen {
                            // (one or two segments outstanding are always within "two segments", whatever their size: an MTU probe is one segment)
                            // (selectively acknowledged bytes are acknowledged bytes)
                            let viol_c = states.iter().all(|s| obs.outstanding(s, k) > 2 * s.mss_now as u64 + s.acked_bytes + obs.sacked_bytes(s) && obs.segs.range((s.cum + 1)..=k).filter(|(j, _)| !s.sacked.contains(j)).count() > 2);
                            if viol_c {
                                let s = &states[0];
                                { let d = format!("log #{}: before any loss event {} bytes are outstanding after sending seq {}, more than 2*mss ({}) + acknowledged bytes ({} cumulatively, {} selectively)", r.idx, obs.outstanding(s, k), p.seq, s.mss_now, s.acked_bytes, obs.sacked_bytes(s)); if f9_possible { if soft.len() < 4 { soft.push((F9_SIG.to_string(), d)); } } else { return (Some((sig("slow-start-exceeded"), d)), vec![], false, 0); } }
                            }
                            labels.insert("slow_start_checked");
                        }
                        if p.payload.len() > obs.st.mss_now { labels.insert("probe_sent"); }
                        let _ = highest_before;
                    }
                    TxKind::Retransmission => {
                        let g = &obs.segs[&k];
                        let same_len = g.lens.len() >= 2 && g.lens[g.lens.len() - 1] == g.lens[g.lens.len() - 2];
                        if !obs.st.poss_recovery && !obs.prev.poss_recovery && same_len && timer_driven {
                            // retransmission by timeout
                            loss_seen = true;
                            labels.insert("rto");
                            if rto_pending.is_none() { labels.insert("rto_then_single_segment"); }
                            rto_pending = Some((k, obs.st.n_rx));
                        } else {
                            loss_seen = true;
                        }
                    }
                }
                if loss_seen_next { loss_seen = true; }
                // (arming at this emission takes effect for later instants only)
                t_arm_next = Some(r.t_us);
                fp.add(((k as u64) << 20) ^ (p.payload.len() as u64) ^ ((obs.st.wnd as u64).min(1 << 20) << 40));
            }
        }
    }
    if obs.st.mss_now > case.sock.min_payload() { labels.insert("mss_grew"); }
    if !loss_seen { labels.insert("slow_start_only"); }
    let distinct_wnd: BTreeSet<u32> = wnd_values.iter().copied().collect();
    let nontrivial = distinct_wnd.len() >= 3 && (labels.contains("zero_window") || labels.contains("window_shrank")) && first_tx_count >= 10;
    (None, labels.into_iter().collect(), nontrivial, fp.get())
}

pub struct Sp;
impl CheckDef for Sp {
    type Case = Case;
    const NAME: &'static str = "sp";
    fn strategy(tier: Tier) -> BoxedStrategy<Case> {
        txgen::strategy(TxGen { class: AckClass::Cumulative, max_steps: tier.pick(70, 160), window_games: true, max_write: tier.pick(60_000, 512 * 1024), long_silence: false }).prop_map(|sp| Case { sp }).boxed()
    }
    fn run(case: &Case, trace: bool) -> Outcome {
        let res = sp::run(&case.sp, trace);
        if !res.established {
            return Outcome::discard(format!("handshake did not complete: {:?}", res.handshake_err));
        }
        let mut soft = vec![];
        let (v, labels, nontrivial, fp) = oracle(&case.sp, &res, &mut soft);
        if let Some((sig, detail)) = v {
            return Outcome::violation(sig, detail);
        }
        let mut o = Outcome::pass();
        o.soft = soft;
        o.labels = labels;
        o.nontrivial = nontrivial;
        o.fingerprint = fp;
        o
    }
}

/// Slow start with reordering: the peer acknowledges cumulatively, now and then reporting one or two
/// packets held out of order (a single SACK-bearing ACK followed by plain ones: never a loss event).
pub struct SpReorder;
impl CheckDef for SpReorder {
    type Case = Case;
    const NAME: &'static str = "sp-reorder";
    fn strategy(tier: Tier) -> BoxedStrategy<Case> {
        let max_steps = tier.pick(60usize, 140);
        (txgen::tx_sock_cfg(), any::<bool>(), any::<u16>(), any::<u16>(), any::<u64>())
            .prop_flat_map(move |(sock, incoming, peer_isn, conn_id, key)| {
                use crate::sim::app::WOp;
                use crate::sim::sp::{PeerOp, Step};
                let w = 4u32 << 20;
                let plain = (prop_oneof![4 => Just(1u16), 2 => 2u16..4, 1 => 4u16..12]).prop_map(move |adv| vec![Step::Peer(PeerOp::AckAdv { adv, wnd: w, sack: None }), Step::Adv(1)]);
                // one honest SACK-bearing ack (1 or 2 packets held, the first or a later one), then at least one plain ack
                let reorder = (0u16..3, 0u8..4, 1u8..3, 1u16..4)
                    .prop_map(move |(adv1, skip, count, adv2)| vec![Step::Peer(PeerOp::SackHeld { adv: adv1, skip, count, wnd: w }), Step::Adv(1), Step::Peer(PeerOp::AckAdv { adv: adv2, wnd: w, sack: None }), Step::Adv(1)]);
                let write = (2000u32..60_000).prop_map(|n| vec![Step::W(WOp::Write { n, chunk: 1 << 20 })]);
                let pause = (1u32..30).prop_map(|ms| vec![Step::Adv(ms)]);
                let block = prop_oneof![5 => plain, 3 => reorder, 1 => write, 1 => pause];
                prop::collection::vec(block, 4..max_steps / 2).prop_map(move |blocks| {
                    let mut steps = vec![Step::R(crate::sim::app::ROp::ReadToEnd { buf: 4096 }), Step::W(WOp::Write { n: 200_000, chunk: 1 << 20 })];
                    for b in blocks { steps.extend(b); }
                    Case { sp: SpCase { sock: sock.clone(), incoming, peer_isn, conn_id, peer_wnd: w, complete_handshake: true, key, steps, linger_ms: 100, discipline: true, bystander: None } }
                })
            })
            .boxed()
    }
    fn run(case: &Case, trace: bool) -> Outcome {
        let mut o = Sp::run(case, trace);
        if !o.is_violation() {
            // what matters here: the slow-start clause stayed armed although SACKs were seen
            o.nontrivial = o.labels.contains(&"sack_without_loss_event") && o.labels.contains(&"slow_start_only");
        }
        o
    }
}

pub fn run(ctx: &mut Ctx) {
    ctx.rule("SP: the endpoint writes generated amounts/chunks; the scripted peer answers with generated cumulative ACK schedules and window values (growing, shrinking, zero, re-opening, < mss), withheld ACKs (-> RTO), retransmitted peer data packets stamped with a newer window, and peer data packets (1 B..9000 B, clipped to the link: also larger than the socket's own segment size) that carry the acknowledgement and a new window; MSS/buffer/Nagle varied, half of the cases without MTU probing. Oracle at every first transmission (wire-log order; a peer packet injected at the same instant is evaluated both as processed and as unprocessed — unless the emission acknowledges that very (data) packet, which proves it was processed): outstanding <= last window outside possible recovery, nothing new at window 0, outstanding <= 2*mss + acked before the first loss event, a single segment after an RTO until an advancing ack. non-trivial = >=3 window values incl. a shrink or zero and >=10 first transmissions; distinct by hash of (seq, len, window) sequence");
    ctx.assume("'possibly in loss recovery' is a conservative superset (2nd duplicate or any SACK until the ack passes the highest seq sent then)");
    ctx.replay_corpus::<Sp>();
    ctx.replay_corpus::<SpReorder>();
    ctx.run_generated::<Sp>(ctx.tier.pick(40_000, 1_500_000));
    ctx.run_generated::<SpReorder>(ctx.tier.pick(20_000, 600_000));
}

pub fn replay(v: &Value) -> Option<i32> {
    replay_file::<Sp>("C05", v).or_else(|| replay_file::<SpReorder>("C05", v))
}
