//! C03 (sub-check "sp-acked") — what the endpoint's stack has acknowledged reaches an application that keeps reading,
//! even if the network then dies (engine SP: the scripted peer plays the writer whose flush "succeeded").
//!
//! The E2E check of C03 uses two real sockets, whose sender never sends beyond the advertised window. Here the
//! writer's side is scripted: it sends in-order data without regard to the window (as a sender acting on a stale
//! window after reordered acknowledgements would), duplicates and packets ahead of a gap, while the receiving
//! application is stopped or slow. Whatever the socket acknowledges cumulatively it has taken responsibility for.
//! Then the peer falls silent for good, the connection is aborted by the inactivity limit, and only then does the
//! application read to the end. Oracle: the bytes it obtains before the error are at least those covered by the
//! highest acknowledgement number the socket ever emitted, and they are the peer's stream.
use std::collections::BTreeSet;

use proptest::prelude::*;
use serde::{Deserialize, Serialize};
use serde_json::Value;

use crate::engine::*;
use crate::model::{refparse, seq::dist};
use crate::props::gens;
use crate::sim::{
    SockCfg,
    app::{AppEv, ROp},
    sp::{self, PeerOp, SpCase, SpResult, Step, peer_payload},
};

#[derive(Clone, Debug, Serialize, Deserialize)]
pub struct Case {
    pub sp: SpCase,
}

fn strategy(tier: Tier) -> BoxedStrategy<Case> {
    let max_steps = tier.pick(40usize, 90);
    (any::<bool>(), 0u8..3)
        .prop_flat_map(move |(v6, reader_kind)| {
            (
                gens::link_mtu(v6),
                prop_oneof![4 => (1u32..8).prop_map(|s| (s, true)), 2 => (10u32..20_000).prop_map(|b| (b, false)), 1 => Just((1u32 << 20, false))],
                gens::rnd_stream(), any::<bool>(), prop_oneof![3 => any::<u16>(), 1 => (65490u32..65536).prop_map(|x| x as u16)], any::<u16>(), any::<u64>(), 2000u32..6000,
            )
                .prop_flat_map(move |(link_mtu, (rx, in_segments), rnd, incoming, peer_isn, conn_id, key, inactivity_ms)| {
                    let mut sock = SockCfg { v6, link_mtu, rnd, inactivity_ms, ..SockCfg::default() };
                    sock.rx_buf = if in_segments { rx * sock.max_payload().max(1) as u32 } else { rx };
                    let maxp = sock.max_payload().max(1) as u16;
                    let minp = sock.min_payload().max(1) as u16;
                    let len = prop_oneof![1 => Just(1u16), 2 => 1u16..=maxp, 3 => Just(minp), 2 => Just(maxp), 2 => 1u16..=minp];
                    let dseq = prop_oneof![14 => Just(0i16), 3 => 1i16..6, 2 => -4i16..0];
                    let adv = prop_oneof![4 => Just(1u32), 2 => Just(5u32), 1 => Just(41u32), 1 => Just(100u32), 1 => 1u32..300];
                    let bufsz = prop_oneof![1 => 1u32..16, 2 => 16u32..2048, 3 => 2048u32..65536];
                    let read = (1u32..4000, bufsz.clone()).prop_map(|(n, buf)| Step::R(ROp::Read { n, buf }));
                    let w_read = match reader_kind { 0 => 0u32, 1 => 1, _ => 4 }; // stopped / slow / normal
                    let mut choices: Vec<(u32, BoxedStrategy<Step>)> = vec![
                        (20, (dseq, len).prop_map(|(dseq, len)| Step::Peer(PeerOp::Data { dseq, len })).boxed()),
                        (5, adv.prop_map(Step::Adv).boxed()),
                    ];
                    if w_read > 0 { choices.push((w_read, read.boxed())); }
                    let step = proptest::strategy::Union::new_weighted(choices);
                    (prop::collection::vec(step, 1..max_steps), bufsz)
                        .prop_map(move |(mut steps, buf)| {
                            // the network dies: silence until the inactivity limit has aborted the connection …
                            steps.push(Step::Adv(sock.inactivity_ms + 1500));
                            // … and only now does the application read on, to the end
                            steps.push(Step::R(ROp::ReadToEnd { buf }));
                            steps.push(Step::Adv(500));
                            Case { sp: SpCase { sock: sock.clone(), incoming, peer_isn, conn_id, peer_wnd: 1 << 20, complete_handshake: true, key, steps, linger_ms: 200, discipline: false, bystander: None } }
                        })
                })
        })
        .boxed()
}

pub fn oracle(case: &SpCase, res: &SpResult) -> Outcome {
    let mut out = Outcome::pass();
    let mut labels: BTreeSet<&'static str> = BTreeSet::new();
    let sock = res.sock_addr.unwrap();
    let first = res.peer_first_seq;
    // highest cumulative acknowledgement the socket ever emitted on this connection
    let mut final_ack = -1i32;
    for r in res.log.iter().filter(|r| r.src == sock) {
        let Some(p) = &r.pkt else { continue };
        if p.conn_id != res.id_to_peer || p.ptype == refparse::ST_SYN || p.ptype == refparse::ST_RESET { continue; }
        let a = dist(p.ack, first);
        if (0..30_000).contains(&a) { final_ack = final_ack.max(a); }
    }
    // the peer's stream, segment by segment (a sequence number's length is fixed the first time it is used)
    let mut expect: Vec<u8> = vec![];
    let mut acked_bytes = 0usize;
    let mut k = 0i32;
    while let Some(l) = res.peer_lens.get(&first.wrapping_add(k as u16)) {
        expect.extend(peer_payload(case.key, first.wrapping_add(k as u16), *l as usize));
        if k <= final_ack { acked_bytes = expect.len(); }
        k += 1;
    }
    let n = res.read_data.len();
    if n > expect.len() || res.read_data[..] != expect[..n] {
        let at = res.read_data.iter().zip(expect.iter()).position(|(a, b)| a != b).unwrap_or(expect.len().min(n));
        return Outcome::violation("sp-acked/read-deviates", format!("the {n} bytes read are not a prefix of the peer's stream: first difference at offset {at}"));
    }
    let end = res.conn_events.iter().find(|e| e.kind == "vsock-end");
    let aborted = end.is_some_and(|e| e.error != "none");
    let finish = res.app.iter().find(|a| matches!(a.ev, AppEv::ReadErr(_) | AppEv::Eof));
    if let (Some(f), true) = (finish, final_ack >= 0) {
        if n < acked_bytes {
            return Outcome::violation(
                "sp-acked/acked-bytes-not-delivered",
                format!("the socket acknowledged the peer's data up to seq {} ({acked_bytes} bytes of its stream), then the peer fell silent; the application, reading to the end, obtained {n} bytes before {} at t={} us: {} acknowledged bytes never reached it", first.wrapping_add(final_ack as u16), match &f.ev { AppEv::ReadErr(e) => format!("the error \"{e}\""), _ => "end-of-stream".into() }, f.t_us, acked_bytes - n),
            );
        }
        labels.insert("reader_finished");
    }
    if aborted { labels.insert("aborted_by_inactivity"); }
    // non-trivial: acknowledged bytes were still unread when the connection task ended
    let read_before_end: usize = match end {
        Some(e) => res.app.iter().filter(|a| a.ord < e.ord).map(|a| if let AppEv::Read { n, .. } = a.ev { n } else { 0 }).sum(),
        None => n,
    };
    let unread_at_abort = aborted && read_before_end < acked_bytes;
    if unread_at_abort { labels.insert("acked_bytes_unread_at_abort"); }
    // beyond what the reader's queue holds: more acknowledged-but-unread bytes than the receive buffer
    if unread_at_abort && acked_bytes - read_before_end > case.sock.rx_buf as usize { labels.insert("acked_beyond_receive_buffer"); }
    if res.conn_events.iter().any(|e| e.kind == "vsock-buf" && e.buf.1 > 0) { labels.insert("reassembly_queue_used"); }
    out.labels = labels.into_iter().collect();
    out.nontrivial = unread_at_abort && finish.is_some();
    let mut fp = Fp::default();
    fp.add(final_ack as u64); fp.add(n as u64); fp.add(read_before_end as u64); fp.add(case.sock.rx_buf as u64);
    out.fingerprint = fp.get();
    out
}

pub struct SpAcked;
impl CheckDef for SpAcked {
    type Case = Case;
    const NAME: &'static str = "sp-acked";
    fn strategy(tier: Tier) -> BoxedStrategy<Case> {
        strategy(tier)
    }
    fn run(case: &Case, trace: bool) -> Outcome {
        let res = sp::run(&case.sp, trace);
        if !res.established {
            return Outcome::discard(format!("handshake did not complete: {:?}", res.handshake_err));
        }
        oracle(&case.sp, &res)
    }
}

pub fn run(ctx: &mut Ctx) {
    ctx.rule("SP sp-acked: the scripted peer is the writer: in-order data without regard to the advertised window, duplicates, packets ahead of a gap (receive buffer 1..7 segments, 10 B..20 KB or 1 MiB; application stopped, slow or normal), then silence until the inactivity limit (2..6 s) aborts the connection, then the application reads to the end. Oracle: bytes obtained before the error >= bytes covered by the highest ack_nr the socket emitted, and they are a prefix of the peer's stream. non-trivial = acknowledged bytes still unread when the connection task ended and the reader ran to its end; distinct by (final ack, bytes read, bytes read before the end, buffer size)");
    ctx.replay_corpus::<SpAcked>();
    ctx.run_generated::<SpAcked>(ctx.tier.pick(20_000, 600_000));
}

pub fn replay(v: &Value) -> Option<i32> {
    replay_file::<SpAcked>("C03", v)
}
