//! C19 — Send-side buffering is bounded; write applies back-pressure (engine SP).
use std::collections::BTreeSet;

use proptest::prelude::*;
use serde::{Deserialize, Serialize};
use serde_json::Value;

use crate::engine::*;
use crate::model::{bytestream, refparse, seq::dist};
use crate::props::gens;
use crate::sim::{
    SockCfg,
    app::{AppEv, ROp, Stream, WOp},
    sp::{self, PeerOp, SpCase, SpResult, Step},
};

#[derive(Clone, Debug, Serialize, Deserialize)]
pub struct Case {
    pub sp: SpCase,
}

fn strategy(tier: Tier) -> BoxedStrategy<Case> {
    let max_steps = tier.pick(60usize, 140);
    (any::<bool>(), prop_oneof![2 => 64u32..2048, 2 => 2048u32..65536, 1 => Just(32u32 * 1024)], 0u8..5, any::<u32>())
        .prop_flat_map(move |(v6, tx_init, max_kind, mx)| {
            let tx_max = match max_kind {
                0 => (tx_init / 2).max(1),                       // max < initial
                1 => tx_init,                                    // no growth
                2 => tx_init * 2 + mx % 100,                     // one (partial) step
                3 => tx_init.saturating_mul(8) + mx % 1000,
                _ => 1 << 20,
            };
            (gens::link_mtu(v6), gens::rnd_stream(), any::<bool>(), any::<u16>(), any::<u16>(), any::<u64>(), prop_oneof![3 => Just(4u32 << 20), 1 => 2000u32..60_000])
                .prop_flat_map(move |(link_mtu, rnd, incoming, peer_isn, conn_id, key, wnd)| {
                    let sock = SockCfg { v6, link_mtu, rnd, tx_init, tx_max, inactivity_ms: 20_000, max_retx: 4, ..SockCfg::default() };
                    // at most ~400 segments per write so that tiny MTUs do not explode the packet count
                    let cap = (sock.min_payload() as u32 * 400).clamp(2000, 262_144);
                    let size = prop_oneof![1 => 1u32..64, 3 => 64u32..cap.min(8192).max(65), 3 => (cap / 4)..cap];
                    let step = prop_oneof![
                        8 => (size, prop_oneof![Just(1u32 << 20), 1u32..5000]).prop_map(|(n, chunk)| Step::W(WOp::Write { n, chunk })),
                        6 => Just(Step::Peer(PeerOp::Ack { back: 0, wnd, sack: None })),
                        6 => (1u16..4).prop_map(move |adv| Step::Peer(PeerOp::AckAdv { adv, wnd, sack: None })),
                        4 => prop_oneof![Just(1u32), Just(3), Just(20), Just(100), Just(250)].prop_map(Step::Adv),
                    ];
                    (prop::collection::vec(step, 1..max_steps), prop::bool::weighted(0.25))
                        .prop_map(move |(mut steps, peer_stops)| {
                            steps.insert(0, Step::R(ROp::ReadToEnd { buf: 4096 }));
                            if peer_stops {
                                // the peer stops acknowledging for good
                                steps.push(Step::W(WOp::Write { n: (sock.min_payload() as u32 * 600).clamp(3000, 300_000).max(2 * sock.tx_init.max(sock.tx_max).min(200_000)), chunk: 1 << 20 }));
                                steps.push(Step::Adv(15_000));
                            } else {
                                for _ in 0..30 {
                                    steps.push(Step::Adv(3));
                                    steps.push(Step::Peer(PeerOp::Ack { back: 0, wnd, sack: None }));
                                }
                            }
                            Case { sp: SpCase { sock: sock.clone(), incoming, peer_isn, conn_id, peer_wnd: wnd, complete_handshake: true, key, steps, linger_ms: 50, discipline: true, bystander: None } }
                        })
                })
        })
        .boxed()
}

pub fn oracle(case: &Case, res: &SpResult) -> (Option<(String, String)>, Vec<&'static str>, bool, u64) {
    let c = &case.sp;
    let mut labels: BTreeSet<&'static str> = BTreeSet::new();
    let mut fp = Fp::default();
    macro_rules! viol {
        ($sig:expr, $($arg:tt)*) => { return (Some(($sig.to_string(), format!($($arg)*))), vec![], false, 0) };
    }
    let first = res.sock_first_seq.unwrap_or(0);
    let sock = res.sock_addr.unwrap();
    let peer = res.peer_addr.unwrap();
    let limit = c.sock.tx_init.max(c.sock.tx_max) as u64;
    // ring capacities the implementation can have: initial * 2^k capped at the maximum
    let mut caps: Vec<u64> = vec![c.sock.tx_init as u64];
    if c.sock.tx_max > c.sock.tx_init {
        let mut x = c.sock.tx_init as u64;
        while x < c.sock.tx_max as u64 {
            x = (x * 2).min(c.sock.tx_max as u64);
            caps.push(x);
        }
    }
    // growth never loses, duplicates or reorders bytes
    let rep = bytestream::check_direction(&res.log, sock, peer, res.id_to_peer, Stream::new(c.key, 0));
    if let Some((idx, seq, why)) = rep.bad {
        viol!("content", "log #{idx} seq {seq}: {why}");
    }
    // cumulative acked bytes as a function of ord: from the wire
    let mut seg_len: std::collections::BTreeMap<i32, u64> = Default::default();
    let mut acks: Vec<(u64, u64, u64, bool)> = vec![]; // (ord, t, acked bytes after this packet, advanced)
    let mut cum = -1i32;
    let mut acked_bytes = 0u64;
    let mut death_ord: Option<u64> = None;
    for r in &res.log {
        let Some(p) = &r.pkt else { continue };
        if r.src == sock && p.conn_id == res.id_to_peer {
            if p.ptype == refparse::ST_DATA {
                let top = seg_len.keys().next_back().copied().unwrap_or(0);
                seg_len.insert(top + dist(p.seq, first.wrapping_add(top as u16)), p.payload.len() as u64);
            }
            if p.ptype == refparse::ST_FIN { death_ord.get_or_insert(r.ord); }
        }
        if r.dst == sock && p.conn_id == res.id_to_sock && p.ptype != refparse::ST_SYN {
            if p.ptype == refparse::ST_FIN || p.ptype == refparse::ST_RESET { death_ord.get_or_insert(r.ord); }
            let top0 = seg_len.keys().next_back().copied().unwrap_or(0);
            let a = top0 + dist(p.ack, first.wrapping_add(top0 as u16));
            let top = seg_len.keys().next_back().copied().unwrap_or(-1);
            let a = a.min(top);
            let mut adv = false;
            if a > cum {
                // a size probe that expires at the very instant its ack arrives is re-cut first (the ack then covers
                // the shorter cut): take for each number the cut that is on the wire last at this instant
                let len_at = |k: i32, l: u64| -> u64 {
                    let seq = first.wrapping_add(k as u16);
                    res.log.iter().filter(|x| x.src == sock && x.t_us == r.t_us && x.idx > r.idx).filter_map(|x| x.pkt.as_ref()).find(|q| q.ptype == refparse::ST_DATA && q.conn_id == res.id_to_peer && q.seq == seq).map(|q| q.payload.len() as u64).unwrap_or(l)
                };
                acked_bytes += seg_len.range((cum + 1)..=a).map(|(k, l)| len_at(*k, *l)).sum::<u64>();
                cum = a;
                adv = true;
            }
            acks.push((r.ord, r.t_us, acked_bytes, adv));
        }
    }
    let acked_before = |ord: u64| -> u64 { acks.iter().rev().find(|(o, _, _, _)| *o < ord).map(|a| a.2).unwrap_or(0) };
    let acked_before_instant = |t: u64| -> u64 { acks.iter().rev().find(|(_, tt, _, _)| *tt < t).map(|a| a.2).unwrap_or(0) };

    let mut accepted = 0u64;
    let mut parked = 0u32;
    let mut grew = false;
    let mut max_outstanding = 0u64;
    let mut woken_same_instant = 0u32;
    // index of Wrote events to detect the op-level start
    for a in &res.app {
        match &a.ev {
            AppEv::Wrote(n) => {
                let before = accepted;
                accepted += *n as u64;
                // bound: accepted - acked <= max(initial, max)
                let out = accepted.saturating_sub(acked_before(a.ord));
                max_outstanding = max_outstanding.max(out);
                if out > limit {
                    viol!("buffer-exceeds-limit", "after a write of {} bytes at t={} us the stream holds {} accepted-but-unacknowledged bytes, the configured limit max(initial {}, max {}) is {}", n, a.t_us, out, c.sock.tx_init, c.sock.tx_max, limit);
                }
                if out > c.sock.tx_init as u64 { grew = true; }
                if a.t_us > a.t_start_us {
                    // the writer was parked from t_start to t
                    parked += 1;
                    // (1) parked only on a full ring: occupancy at park time equals a capacity
                    let occ_a = before.saturating_sub(acked_before_instant(a.t_start_us)); // acks of that instant unprocessed
                    let occ_b = before.saturating_sub(acks.iter().rev().find(|(_, tt, _, _)| *tt <= a.t_start_us).map(|x| x.2).unwrap_or(0));
                    if !caps.contains(&occ_a) && !caps.contains(&occ_b) {
                        viol!("parked-on-non-full-buffer", "write started at t={} us stayed pending until t={} us although only {} (or {}) bytes were buffered; ring capacities are {:?}", a.t_start_us, a.t_us, occ_a, occ_b, caps);
                    }
                    // (2) woken as soon as an ACK frees space: no advancing ack strictly between
                    if let Some((_, t1, _, _)) = acks.iter().find(|(_, tt, _, adv)| *adv && *tt > a.t_start_us && *tt < a.t_us) {
                        viol!("writer-not-woken", "write parked at t={} us resumed at t={} us, but an ACK that freed buffer space had already been delivered at t={} us", a.t_start_us, a.t_us, t1);
                    }
                    // it resumed at an instant at which something was delivered to the endpoint
                    if acks.iter().any(|(_, tt, _, _)| *tt == a.t_us) { woken_same_instant += 1; }
                }
                fp.add((out * 16 / limit.max(1)).min(16) ^ ((a.t_us > a.t_start_us) as u64) << 8);
            }
            AppEv::WriteErr(e) => {
                // an error needs a cause: the connection ended (own/death FIN, peer FIN/RESET)
                if death_ord.is_none_or(|d| d > a.ord) {
                    viol!("write-error-on-live-connection", "write failed with '{}' at t={} us although the connection had not ended (no FIN either way, no RESET)", e, a.t_us);
                }
                labels.insert("writer_got_error");
            }
            _ => {}
        }
    }
    if parked > 0 { labels.insert("writer_parked"); }
    if grew { labels.insert("ring_grew"); }
    if c.sock.tx_max < c.sock.tx_init { labels.insert("max_lt_initial"); }
    if max_outstanding == limit { labels.insert("grew_to_max"); }
    if woken_same_instant > 0 { labels.insert("woken_same_instant"); }
    if death_ord.is_some() && acks.last().is_none_or(|a| a.2 < accepted) { labels.insert("peer_stopped_acking"); }
    let nontrivial = parked >= 1 && grew;
    (None, labels.into_iter().collect(), nontrivial, fp.get())
}

pub struct Sp;
impl CheckDef for Sp {
    type Case = Case;
    const NAME: &'static str = "sp";
    fn strategy(tier: Tier) -> BoxedStrategy<Case> {
        strategy(tier)
    }
    fn run(case: &Case, trace: bool) -> Outcome {
        let res = sp::run(&case.sp, trace);
        if !res.established {
            return Outcome::discard(format!("handshake did not complete: {:?}", res.handshake_err));
        }
        let (v, labels, nontrivial, fp) = oracle(case, &res);
        if let Some((sig, detail)) = v {
            return Outcome::violation(format!("sp/{sig}"), detail);
        }
        let mut o = Outcome::pass();
        o.labels = labels;
        o.nontrivial = nontrivial;
        o.fingerprint = fp;
        o
    }
}

pub fn run(ctx: &mut Ctx) {
    ctx.rule("SP: tx ring initial 64 B..64 KiB, maximum from initial/2 to 1 MiB (incl. max < initial, partial last step); the writer writes as fast as poll_write allows (1 B..256 KiB per call, chunked or not; one chunk size in eight abandons a blocked write after 25 ms and retries it with a fresh waker, the abandoned attempt's waker going dead); scripted peer ACK schedules: prompt, slow, one to three segments at a time, stops for good; window large/small. Oracle: accepted - acked <= max(initial, max) after every accepted write; a write is parked only on a full ring (occupancy equals one of initial*2^k capped) and resumes no later than the first ACK that frees space; write errors only after the connection ended; wire-content oracle across growth steps. non-trivial = writer parked >= 1x and >= 1 growth step; distinct by hash of (occupancy bucket, parked) sequence");
    ctx.replay_corpus::<Sp>();
    ctx.run_generated::<Sp>(ctx.tier.pick(15_000, 600_000));
    crate::props::c19t::run(ctx);
}

pub fn replay(v: &Value) -> Option<i32> {
    replay_file::<Sp>("C19", v).or_else(|| crate::props::c19t::replay(v))
}
