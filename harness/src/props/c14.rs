//! C14 — Path-MTU discovery is safe and converges (E2E).
use std::collections::{BTreeMap, BTreeSet};

use proptest::prelude::*;
use serde::{Deserialize, Serialize};
use serde_json::Value;

use crate::engine::*;
use crate::model::{refparse, seq::dist};
use crate::props::c01::{self, install_f7_guard};
use crate::props::gens;
use crate::sim::{
    Disposition, Family, Net, NetPlan, SockCfg, WireRec,
    app::{ROp, WOp},
    e2e::{self, ConnPlan, RunResult, Scenario},
};

pub const F5_SIG: &str = "oversize-datagram";
pub const ASYM_SIG: &str = "C14/asymmetric-path-peer-size-trusted";

#[derive(Clone, Debug, Serialize, Deserialize)]
pub struct Case {
    pub sc: Scenario,
    /// path MTU differs per direction (the implementation trusts the peer's payload sizes)
    pub asymmetric: bool,
    #[serde(default)]
    pub no_guard: bool,
    /// the sender writes in small pieces with pauses (buffered data often lies between the proven and the
    /// probed size); convergence clauses apply to bulk writers only
    #[serde(default)]
    pub trickle: bool,
}

fn strategy(tier: Tier) -> BoxedStrategy<Case> {
    let segs = tier.pick(120u32, 400);
    (any::<bool>(), prop::bool::weighted(0.15), prop::bool::weighted(0.3), prop::bool::weighted(0.5))
        .prop_flat_map(move |(v6, asymmetric, emsgsize, lossy)| {
            (
                gens::link_mtu_wide(v6), gens::link_mtu_wide(v6), 0u16..=1000, 0u16..=1000, 0u8..4, 0u8..4,
                gens::rnd_stream(), gens::rnd_stream(), (1u16..40), if lossy { gens::fates_fair(600, 60) } else { Just(vec![]).boxed() }, any::<u64>(),
                (prop_oneof![1 => Just(0u32), 1 => 1u32..20_000],
                prop::option::weighted(0.4, prop::collection::vec((prop_oneof![3 => 1u32..1000, 3 => 400u32..1600, 1 => 1600u32..12_000], prop_oneof![2 => Just(0u32), 3 => 1u32..120, 1 => 120u32..900]), 20..120))),
            )
                .prop_map(move |(l0, l1, f0, f1, pr0, pr1, rnd0, rnd1, lat, fates, key, (back, trickle))| {
                    let mut s0 = SockCfg { v6, link_mtu: l0, probe_retx: pr0, rnd: rnd0, ..SockCfg::default() };
                    let mut s1 = SockCfg { v6, link_mtu: l1, probe_retx: pr1, rnd: rnd1, ..SockCfg::default() };
                    for s in [&mut s0, &mut s1] { s.inactivity_ms = 600_000; s.max_retx = 8; s.tx_init = 1 << 20; s.tx_max = 1 << 20; }
                    let ipudp = s0.ip_udp();
                    let frac = |lo: usize, hi: usize, f: u16| (lo + hi.saturating_sub(lo) * f as usize / 1000) as u16;
                    // true path MTU between the protocol minimum and the smaller link MTU
                    // (not below either side's protocol floor: below that no size is ever proven)
                    let lo = s0.min_payload().max(s1.min_payload()) + 20 + ipudp;
                    let hi = (s0.link_mtu as usize).min(s1.link_mtu as usize).max(lo);
                    let p0 = frac(lo, hi, f0);
                    let p1 = if asymmetric { frac(lo, hi, f1) } else { p0 };
                    let mut net = NetPlan { family: if fates.is_empty() { Family::LossFree } else { Family::FairLossy { k: 1 } }, lat_ms: (lat, lat), path_mtu: (Some(p0), Some(p1)), fates, cut_at: None };
                    if emsgsize {
                        // the local link of socket 0 is narrower than configured: EMSGSIZE instead of a blackhole
                        s0.emsgsize_above = Some(p0.saturating_sub(ipudp as u16).max((s0.min_payload() + 20) as u16));
                        net.path_mtu.0 = None;
                        if !asymmetric { net.path_mtu.1 = Some(p0); }
                    }
                    // long enough to converge: `segs` segments of the largest size
                    // (the byte cap keeps Ethernet-size cases cheap; above it the number of segments is what matters)
                    let mut total = (segs * s0.max_payload() as u32).min(1_500_000).max(20_000).max(100 * s0.max_payload() as u32);
                    let mut a_w = vec![WOp::Write { n: total, chunk: 1 << 20 }, WOp::Flush];
                    let is_trickle = trickle.is_some();
                    if let Some(pieces) = trickle {
                        // piece sizes relative to the segment sizes in play
                        let scale = (s0.max_payload() as u32).max(100);
                        a_w = vec![];
                        total = 0;
                        for (n, pause) in pieces {
                            let n = (n as u64 * scale as u64 / 1000).max(1) as u32;
                            total += n;
                            a_w.push(WOp::Write { n, chunk: 1 << 20 });
                            if pause > 0 { a_w.push(WOp::Sleep(pause)); }
                        }
                        a_w.push(WOp::Flush);
                    }
                    let sc = Scenario {
                        socks: vec![s0, s1],
                        conns: vec![ConnPlan { from: 0, to: 1, start_ms: 0, key, a_w, a_r: vec![ROp::Read { n: back, buf: 65536 }], b_w: if back > 0 { vec![WOp::Write { n: back, chunk: 1 << 20 }, WOp::Flush] } else { vec![] }, b_r: vec![ROp::Read { n: total, buf: 65536 }] }],
                        net,
                        events: vec![],
                        deadline_ms: 20_000_000,
                        linger_ms: 0,
                    };
                    Case { sc, asymmetric, no_guard: false, trickle: is_trickle }
                })
        })
        .boxed()
}

/// probes are never hit by the random fault plan ("loss of non-probe packets"); a probe fails only
/// because of the path (blackhole) or the local link (EMSGSIZE)
fn protect_probes(net: &Net) {
    // per direction: length of the previous first-transmitted data packet, highest seq, known probe seqs
    #[derive(Default)]
    struct D { prev_len: usize, seen: BTreeSet<u16>, probes: BTreeSet<u16> }
    let mut dirs: BTreeMap<(std::net::SocketAddr, std::net::SocketAddr, u16), D> = Default::default();
    let mut cursor = 0usize;
    net.set_protect(move |rec: &WireRec, log: &[WireRec]| {
        let mut classify = |r: &WireRec, commit: bool| -> bool {
            let Some(p) = &r.pkt else { return false };
            if p.ptype != refparse::ST_DATA { return false; }
            let d = dirs.entry((r.src, r.dst, p.conn_id)).or_default();
            let first = !d.seen.contains(&p.seq);
            // sizes only ever increase through probes: a first transmission longer than its predecessor is one
            let is_probe = if first { d.prev_len > 0 && p.payload.len() > d.prev_len } else { d.probes.contains(&p.seq) };
            if commit {
                if first { d.seen.insert(p.seq); d.prev_len = p.payload.len(); }
                if is_probe { d.probes.insert(p.seq); }
            }
            is_probe
        };
        while cursor < log.len() {
            classify(&log[cursor], true);
            cursor += 1;
        }
        classify(rec, false)
    });
}

pub fn oracle(case: &Case, res: &RunResult) -> Outcome {
    let sc = &case.sc;
    let mut out = Outcome::pass();
    out.excluded_by_known_finding = res.excluded;
    let mut labels: BTreeSet<&'static str> = BTreeSet::new();
    macro_rules! viol {
        ($sig:expr, $($arg:tt)*) => { return Outcome { verdict: Verdict::Violation { signature: $sig.to_string(), detail: format!($($arg)*) }, ..out } };
    }
    let c = &res.conns[0];
    if c.connect_err.is_some() || !c.ep[0].established || !c.ep[1].established {
        return Outcome::discard("connection was not established");
    }
    // (a) no datagram larger than the emitting socket's link MTU allows
    if let Some((idx, why)) = res.preds.oversize.first() {
        viol!(F5_SIG, "log #{idx}: {why}");
    }
    // (c) integrity
    if let Some((sig, detail)) = c01::integrity_oracle(sc, res) {
        viol!(sig, "{detail}");
    }
    // (b) ordinary segments <= proven; at most one probe outstanding, and it is the newest segment
    let mut probes_total = [0usize; 2];
    let mut steady = [0usize; 2];
    for side in 0..2 {
        let (me, peer) = (res.addrs[side], res.addrs[1 - side]);
        let cfg = &sc.socks[side];
        let floor = cfg.min_payload();
        let ceil = cfg.max_payload();
        // events in log order; acks count when delivered: use delivery time ordering via a merged list
        #[derive(Clone)]
        enum E<'a> { Tx(&'a WireRec), AckDelivered(u16, Vec<bool>), DataDelivered(usize) }
        let mut evs: Vec<(u64, u64, E)> = vec![];
        for r in &res.log {
            let Some(p) = &r.pkt else { continue };
            if r.src == me && p.ptype == refparse::ST_DATA { evs.push((r.t_us, r.ord * 2, E::Tx(r))); }
            if r.src == peer && r.dst == me && p.ptype != refparse::ST_SYN {
                if let Disposition::Deliver(ts) = &r.disp {
                    for t in ts {
                        evs.push((*t, r.ord * 2 + 1, E::AckDelivered(p.ack, p.sack_bits())));
                        if p.ptype == refparse::ST_DATA { evs.push((*t, r.ord * 2 + 1, E::DataDelivered(p.payload.len()))); }
                    }
                }
            }
        }
        evs.sort_by_key(|e| (e.0, e.1));
        let mut first_seq: Option<u16> = None;
        let mut sent: BTreeMap<i32, (usize, bool)> = BTreeMap::new(); // rel -> (len of last tx, acked)
        let mut highest = -1i32;
        let mut acked_max = 0usize;
        let mut recv_max = 0usize;
        let mut outstanding_probe: Option<i32> = None;
        let mut last_sizes: Vec<usize> = vec![];
        for (_, _, e) in &evs {
            match e {
                E::AckDelivered(ack, bits) => {
                    let Some(fs) = first_seq else { continue };
                    let a = dist(*ack, fs);
                    for (k, (len, acked)) in sent.iter_mut() {
                        let sacked = { let i = *k - a - 2; i >= 0 && (i as usize) < bits.len() && bits[i as usize] };
                        if !*acked && (*k <= a || sacked) { *acked = true; acked_max = acked_max.max(*len); if outstanding_probe == Some(*k) { outstanding_probe = None; } }
                    }
                }
                E::DataDelivered(len) => recv_max = recv_max.max((*len).min(ceil)),
                E::Tx(r) => {
                    let p = r.pkt.as_ref().unwrap();
                    if matches!(r.disp, Disposition::Emsgsize) {
                        // refused by the local link: nothing left the host. It was a probe attempt (counted), the
                        // same sequence number is immediately re-cut smaller.
                        probes_total[side] += 1;
                        labels.insert("emsgsize_hit");
                        labels.insert("probe_sent");
                        continue;
                    }
                    let fs = *first_seq.get_or_insert(p.seq);
                    let top = highest.max(0);
                    let k = top + dist(p.seq, fs.wrapping_add(top as u16));
                    let len = p.payload.len();
                    let proven = floor.max(acked_max).max(recv_max);
                    let is_first = k > highest;
                    if is_first {
                        if len > proven {
                            // a probe: the only one outstanding, and the newest segment
                            probes_total[side] += 1;
                            labels.insert("probe_sent");
                            if let Some(op) = outstanding_probe {
                                if sent.get(&op).is_some_and(|s| !s.1 && s.0 > proven) {
                                    viol!("two-probes-outstanding", "log #{}: side {side} sends a second oversize segment (seq {}, {} bytes > proven {}) while the probe seq {} ({} bytes) is still unacknowledged", r.idx, p.seq, len, proven, fs.wrapping_add(op as u16), sent[&op].0);
                                }
                            }
                            outstanding_probe = Some(k);
                        } else if let Some(op) = outstanding_probe {
                            // an ordinary new segment after a probe that is still outstanding: the probe is no longer the newest
                            if sent.get(&op).is_some_and(|s| !s.1 && s.0 > proven) {
                                viol!("segment-after-outstanding-probe", "log #{}: side {side} transmits new seq {} while the oversize probe seq {} ({} bytes, proven {}) is outstanding: the probe is not the newest segment", r.idx, p.seq, fs.wrapping_add(op as u16), sent[&op].0, proven);
                            }
                        }
                        highest = k;
                        if len == proven || len > proven { last_sizes.push(len); }
                    } else {
                        // retransmission: a re-cut probe comes back with a proven size
                        if sent.get(&k).is_some_and(|s| s.0 != len) { labels.insert("probe_recut"); if outstanding_probe == Some(k) && len <= proven { outstanding_probe = None; } }
                        if len > proven && sent.get(&k).is_some_and(|s| s.0 != len) {
                            viol!("recut-above-proven", "log #{}: side {side} re-cut seq {} to {} bytes, above the proven size {}", r.idx, p.seq, len, proven);
                        }
                    }
                    sent.insert(k, (len, false));
                    if matches!(r.disp, Disposition::Dropped("blackhole")) { labels.insert("blackhole_hit"); }
                    if matches!(r.disp, Disposition::Emsgsize) { labels.insert("emsgsize_hit"); }
                }
            }
        }
        // steady size: the most frequent size among the last 20 full first transmissions
        let tail: Vec<usize> = last_sizes.iter().rev().skip(1).take(20).copied().collect();
        let mut freq: BTreeMap<usize, usize> = BTreeMap::new();
        for s in &tail { *freq.entry(*s).or_default() += 1; }
        steady[side] = freq.into_iter().max_by_key(|(s, n)| (*n, *s)).map(|x| x.0).unwrap_or(0);
    }
    // (d) convergence for the bulk direction (socket 0 -> socket 1)
    let s0 = &sc.socks[0];
    let ipudp = s0.ip_udp();
    let path_payload = sc.net.path_mtu.0.map(|m| (m as usize).saturating_sub(ipudp + 20)).unwrap_or(usize::MAX);
    let emsg_payload = s0.emsgsize_above.map(|m| (m as usize).saturating_sub(20)).unwrap_or(usize::MAX);
    let target = s0.max_payload().min(path_payload).min(emsg_payload).max(s0.min_payload());
    let plan = &sc.conns[0];
    let total: u64 = plan.a_w.iter().map(|o| if let WOp::Write { n, .. } = o { *n as u64 } else { 0 }).sum();
    let completed = res.scripts_done && c.ep[1].read == total;
    if !completed {
        // asymmetric paths: the peer's (larger) payload sizes are trusted for our direction too
        let sig = if case.asymmetric { ASYM_SIG } else { "transfer-did-not-complete" };
        viol!(sig, "the bulk transfer did not complete: {} of {} bytes read by the receiver within {} virtual ms (path MTU {:?}, link MTUs {}/{}, EMSGSIZE above {:?})", c.ep[1].read, total, sc.deadline_ms, sc.net.path_mtu, s0.link_mtu, sc.socks[1].link_mtu, s0.emsgsize_above);
    }
    let range = (s0.max_payload() - s0.min_payload() + 1) as f64;
    // "a logarithmic number of probes": the base of the search is not part of the property (a search that keeps 3/4 of
    // the interval after a failure needs 2.41 log2(range)); any linear or repeating search exceeds this by far
    let bound = 3 * (range.log2().ceil() as usize) + 3;
    if case.trickle { labels.insert("trickle_writer"); }
    if !case.asymmetric && !case.trickle {
        if steady[0] != target && total as usize > 80 * s0.max_payload() {
            viol!("not-converged", "after {} bytes the steady segment size of the sender is {} but the largest payload that fits the path is {} (path MTU {:?}, link MTU {}, EMSGSIZE above {:?}, probes sent {})", total, steady[0], target, sc.net.path_mtu.0, s0.link_mtu, s0.emsgsize_above, probes_total[0]);
        }
        if probes_total[0] > bound {
            viol!("too-many-probes", "{} probes were sent, more than 3*ceil(log2({} - {} + 1)) + 3 = {}", probes_total[0], s0.max_payload(), s0.min_payload(), bound);
        }
        if steady[0] == target { labels.insert("converged_exact"); }
    }
    if s0.v6 { labels.insert("ipv6"); }
    if s0.emsgsize_above.is_some() { labels.insert("emsgsize"); } else { labels.insert("blackhole"); }
    if s0.link_mtu < 576 { labels.insert("link_lt_576"); }
    if res.dropped > 0 { labels.insert("lossy"); }
    if case.asymmetric { labels.insert("asymmetric"); }
    out.labels = labels.iter().copied().collect();
    out.nontrivial = target > s0.min_payload() && target < s0.max_payload() && (labels.contains("blackhole_hit") || labels.contains("emsgsize_hit")) && probes_total[0] >= 2;
    let mut fp = Fp::default();
    fp.add(target as u64); fp.add(s0.link_mtu as u64); fp.add(probes_total[0] as u64); fp.add(s0.v6 as u64); fp.add(res.dropped);
    out.fingerprint = fp.get();
    out.stats.push(("max_probes", probes_total[0] as u64));
    out
}

pub struct E2e;
impl CheckDef for E2e {
    type Case = Case;
    const NAME: &'static str = "e2e";
    fn strategy(tier: Tier) -> BoxedStrategy<Case> {
        strategy(tier)
    }
    fn run(case: &Case, trace: bool) -> Outcome {
        let res = e2e::run_with(&case.sc, trace, |net| { protect_probes(net); if !case.no_guard { install_f7_guard(net); } });
        oracle(case, &res)
    }
}

pub fn run(ctx: &mut Ctx) {
    ctx.rule("E2E: link MTU over the whole range of the option per side (58..65535, one case in five above 9000), true path MTU between the protocol minimum and the smaller link MTU (symmetric; 15 % asymmetric), IPv4/IPv6, silent blackhole or EMSGSIZE on the local link, mtu_probe_max_retransmissions 0..3, fair loss of non-probe datagrams in half of the cases, bulk transfer of 120/400 maximum-size segments plus optional reverse traffic. Oracle: every emitted datagram fits the emitter's link MTU (whatever the peer sends); first transmissions above the proven size (protocol minimum, own acked sizes, received sizes clamped to the link) are probes: one outstanding at a time and the newest segment; C01 integrity; the steady segment size at the end equals the largest payload that fits and the number of probes is <= 3*ceil(log2(range)) + 3. non-trivial = fitting size strictly between minimum and link size, >= 2 probes, >= 1 probe stopped by the path/link; distinct by (target, link MTU, probes, family, drops)");
    ctx.assume("probes themselves are exempt from the random fault plan (the property speaks of loss of non-probe packets)");
    ctx.replay_corpus::<E2e>();
    ctx.run_generated::<E2e>(ctx.tier.pick(12_000, 400_000));
}

pub fn replay(v: &Value) -> Option<i32> {
    replay_file::<E2e>("C14", v)
}
