//! C17 — Handshake and teardown follow the uTP state machine on the wire (engine SP;
//! bounded-exhaustive + generated).
use std::collections::BTreeSet;

use proptest::prelude::*;
use serde::{Deserialize, Serialize};
use serde_json::{Value, json};

use crate::engine::*;
use crate::model::{refparse, seq::dist};
use crate::sim::{
    SockCfg, WireRec,
    app::{AppEv, ROp, WOp},
    sp::{self, PeerOp, SpCase, SpResult, Step},
};

#[derive(Clone, Debug, Serialize, Deserialize)]
pub struct Case {
    /// start state 0..7 (see `prefix`)
    pub start: u8,
    pub incoming: bool,
    pub wait_lastack: bool,
    pub max_retx: u8,
    pub isn: u16,
    pub rnd: Vec<u16>,
    pub evs: Vec<Step>,
    /// 576: no size probing (the link is the protocol minimum); larger: probes are cut early in the connection
    #[serde(default = "default_mtu")]
    pub link_mtu: u16,
}
fn default_mtu() -> u16 {
    576
}

pub const N_STARTS: u8 = 8;

/// canonical prefix reaching each handshake / teardown state
fn prefix(start: u8) -> (bool, Vec<Step>) {
    // returns (complete_handshake, steps)
    let ackall = Step::Peer(PeerOp::Ack { back: 0, wnd: 1 << 20, sack: None });
    match start {
        0 => (false, vec![]),                                                         // SYN-ACK sent, initiator silent (incoming only)
        1 => (true, vec![]),                                                          // established, no data
        2 => (true, vec![Step::W(WOp::Write { n: 700, chunk: 1 << 20 }), ackall.clone(), Step::Peer(PeerOp::Data { dseq: 0, len: 300 }), Step::Adv(50)]), // established after data both ways
        3 => (true, vec![Step::W(WOp::Write { n: 700, chunk: 1 << 20 })]),            // established, own data unacked
        4 => (true, vec![Step::W(WOp::Shutdown)]),                                    // our FIN sent, not acked (FinWait1)
        5 => (true, vec![Step::W(WOp::Shutdown), ackall.clone()]),                    // our FIN acked (FinWait2)
        6 => (true, vec![Step::Peer(PeerOp::Fin { dseq: 0 })]),                       // their FIN received (LastAck)
        // our FIN acknowledged by a data packet: FinWait2 proper (a plain ST_STATE that acks our FIN with the
        // next sequence number is taken for the peer's FIN by a documented heuristic and closes at once)
        _ => (true, vec![Step::W(WOp::Shutdown), Step::Peer(PeerOp::DataAck { dseq: 0, len: 200 })]),
    }
}

pub fn alphabet() -> Vec<Step> {
    let w = 1u32 << 20;
    vec![
        Step::Peer(PeerOp::SynDup),
        Step::Peer(PeerOp::Ack { back: 0, wnd: w, sack: None }),  // acks everything seen
        Step::Peer(PeerOp::Ack { back: 1, wnd: w, sack: None }),  // stale
        Step::Peer(PeerOp::Ack { back: -2, wnd: w, sack: None }), // future
        Step::Peer(PeerOp::Data { dseq: 0, len: 200 }),
        Step::Peer(PeerOp::Data { dseq: 2, len: 200 }),
        Step::Peer(PeerOp::Data { dseq: -1, len: 200 }),
        Step::Peer(PeerOp::DataAck { dseq: 0, len: 200 }),
        Step::Peer(PeerOp::Fin { dseq: 0 }),
        Step::Peer(PeerOp::FinAck { dseq: 0 }),
        Step::Peer(PeerOp::Fin { dseq: 2 }),
        Step::Peer(PeerOp::Fin { dseq: -1 }),
        Step::Peer(PeerOp::Reset { ack_fin: true }),
        Step::Peer(PeerOp::Reset { ack_fin: false }),
        Step::W(WOp::Write { n: 100, chunk: 1 << 20 }),
        Step::W(WOp::Write { n: 1056, chunk: 1 << 20 }), // exactly two full segments at link MTU 576
        Step::W(WOp::Write { n: 3000, chunk: 1 << 20 }),
        Step::W(WOp::Shutdown),
        Step::W(WOp::Drop),
        Step::R(ROp::Drop),
        Step::R(ROp::Read { n: 100_000, buf: 4096 }),
        Step::Adv(40),
        Step::Adv(200),
        Step::Adv(1000),
        Step::Adv(11_000),
    ]
}

fn build(case: &Case) -> SpCase {
    let (complete, mut steps) = prefix(case.start);
    steps.extend(case.evs.iter().cloned());
    steps.push(Step::Adv(50));
    SpCase {
        sock: SockCfg { link_mtu: case.link_mtu, wait_lastack: case.wait_lastack, max_retx: case.max_retx.max(1), rnd: case.rnd.clone(), ..SockCfg::default() },
        incoming: case.incoming || case.start == 0,
        peer_isn: case.isn,
        conn_id: 4000,
        peer_wnd: 1 << 20,
        complete_handshake: complete,
        key: 17,
        steps,
        linger_ms: 2500,
        discipline: false,
        bystander: None,
    }
}

// ------------------------------------------------------------------------------------------

pub fn oracle(case: &Case, spc: &SpCase, res: &SpResult) -> (Option<(String, String)>, Vec<&'static str>, bool, u64) {
    let mut labels: BTreeSet<&'static str> = BTreeSet::new();
    let mut fp = Fp::default();
    macro_rules! viol {
        ($sig:expr, $($arg:tt)*) => { return (Some(($sig.to_string(), format!($($arg)*))), vec![], false, 0) };
    }
    let sock = res.sock_addr.unwrap();
    let tx: Vec<&WireRec> = res.log.iter().filter(|r| r.src == sock && r.pkt.is_some()).collect();
    let rx: Vec<&WireRec> = res.log.iter().filter(|r| r.dst == sock && r.pkt.is_some()).collect();
    let first = res.sock_first_seq.unwrap_or(0);

    // ---------------- (a) accepted connection: SYN-ACK
    if spc.incoming {
        let syn = rx.iter().find(|r| r.pkt.as_ref().unwrap().ptype == refparse::ST_SYN).map(|r| r.pkt.as_ref().unwrap().clone());
        if let Some(syn) = syn {
            let Some(f) = tx.first() else { viol!("synack-missing", "no datagram emitted in response to the SYN") };
            let fpk = f.pkt.as_ref().unwrap();
            if fpk.ptype != refparse::ST_STATE || fpk.ack != syn.seq || fpk.conn_id != syn.conn_id {
                viol!("synack-wrong", "first emission after the SYN is {} (expected ST_STATE acknowledging seq {} with connection id {})", fpk.short(), syn.seq, syn.conn_id);
            }
            // first valid datagram from the initiator: DATA/STATE (or FIN) whose ack_nr == S-1
            let s_minus_1 = fpk.seq.wrapping_sub(1);
            let first_valid = rx.iter().find(|r| { let p = r.pkt.as_ref().unwrap(); p.conn_id == res.id_to_sock && ((matches!(p.ptype, refparse::ST_DATA | refparse::ST_STATE) && p.ack == s_minus_1) || p.ptype == refparse::ST_FIN || p.ptype == refparse::ST_RESET) }).map(|r| (r.t_us, r.ord));
            // SYN-ACK (re)transmissions: pure STATE, same seq, ack == syn.seq, before anything else was received on the connection
            let synacks: Vec<&&WireRec> = tx.iter().filter(|r| { let p = r.pkt.as_ref().unwrap(); p.ptype == refparse::ST_STATE && p.seq == fpk.seq && p.ack == syn.seq && p.wnd == fpk.wnd && p.last_ext(1).is_none() && first_valid.is_none_or(|(_, o)| r.ord < o) }).collect();
            if synacks.len() > spc.sock.max_retx as usize + 1 {
                viol!("synack-too-many", "{} SYN-ACK transmissions, the configured number of retransmissions is {}", synacks.len(), spc.sock.max_retx);
            }
            // the repetition interval is not part of the property: it is read off the first repetition, and later
            // gaps must be regular — equal to, or at most twice, the previous one (constant or backed-off schedules)
            let gaps: Vec<u64> = synacks.windows(2).map(|w| w[1].t_us - w[0].t_us).collect();
            for (i, w) in gaps.windows(2).enumerate() {
                if w[1] + 1_000 < w[0] || w[1] > 2 * w[0] + 1_000 {
                    viol!("synack-interval", "SYN-ACK repetitions are irregular: gap {} us then {} us (repetitions {}..{})", w[0], w[1], i + 1, i + 3);
                }
            }
            let interval = gaps.last().copied();
            if synacks.len() >= 2 { labels.insert("synack_retransmitted"); }
            if let Some((tv, ov)) = first_valid {
                // no SYN-ACK repetition after the initiator's first valid packet (later identical
                // STATEs are ordinary acks only if something new arrived; a pure repeat 200 ms later is not)
                let _ = (tv, ov);
            } else {
                // initiator silent: after the last repetition the connection gives up: stream operations fail
                let quiet_for = res.t_end_us.saturating_sub(synacks.last().map(|r| r.t_us).unwrap_or(0));
                let app_closed = res.app.iter().any(|a| matches!(a.ev, AppEv::WriterDropped | AppEv::ReaderDropped | AppEv::ShutdownOk | AppEv::ShutdownErr(_))) || res.shutdown_called_at_us.is_some() || tx.iter().any(|t| t.pkt.as_ref().unwrap().ptype == refparse::ST_FIN);
                // (silent for three of its own intervals, or — when no repetition was seen at all — for 5 s)
                let silent_long = match interval { Some(g) => quiet_for > 3 * g + 1_000, None => quiet_for > 5_000_000 };
                if silent_long && synacks.len() < spc.sock.max_retx as usize && !app_closed {
                    viol!("synack-stopped-early", "only {} SYN-ACK transmissions although the initiator stayed silent for {} us (configured retransmissions {})", synacks.len(), quiet_for, spc.sock.max_retx);
                }
                if silent_long && synacks.len() >= spc.sock.max_retx as usize && res.established {
                    labels.insert("synack_gave_up");
                    // a pending read must have failed
                    let pending_read = res.app.iter().any(|a| matches!(a.ev, AppEv::ReadErr(_) | AppEv::Eof | AppEv::Read { .. }));
                    let asked = case.evs.iter().any(|e| matches!(e, Step::R(ROp::Read { .. })));
                    if asked && !pending_read && !res.app.iter().any(|a| matches!(a.ev, AppEv::ReaderDropped)) {
                        viol!("synack-no-failure", "the initiator never completed the handshake, the SYN-ACK was repeated {} times, yet the pending read neither failed nor ended", synacks.len());
                    }
                }
            }
        }
    }

    // ---------------- shared bookkeeping
    let own_fins: Vec<&&WireRec> = tx.iter().filter(|r| r.pkt.as_ref().unwrap().ptype == refparse::ST_FIN && r.pkt.as_ref().unwrap().conn_id == res.id_to_peer).collect();
    let own_data: Vec<&&WireRec> = tx.iter().filter(|r| r.pkt.as_ref().unwrap().ptype == refparse::ST_DATA && r.pkt.as_ref().unwrap().conn_id == res.id_to_peer).collect();
    // ---- connection state tracker (observer of the documented state graph, docs/states.dot)
    #[derive(Clone, Copy, Debug, PartialEq, Eq)]
    enum St { SynAckSent, Established, FinWait1, FinWait2, LastAck, Closed }
    let our_fin_seq: Option<u16> = own_fins.first().map(|f| f.pkt.as_ref().unwrap().seq);
    let first_err_ord: Option<u64> = res.app.iter().filter(|a| matches!(a.ev, AppEv::ReadErr(_) | AppEv::WriteErr(_) | AppEv::ShutdownErr(_) | AppEv::FlushErr(_))).map(|a| a.ord).min();
    let mut got: BTreeSet<i32> = BTreeSet::new();
    let mut contig = -1i32;
    let mut st = if spc.incoming { St::SynAckSent } else { St::Established };
    let s_minus_1 = if spc.incoming { tx.first().map(|f| f.pkt.as_ref().unwrap().seq.wrapping_sub(1)) } else { None };
    let mut peer_fin_in_seq: Option<(&WireRec, u16, St)> = None; // (record, seq, state before)
    let mut peer_fin_ooo: Vec<(&WireRec, u16)> = vec![];
    let mut closed: Option<(u64, u64, &'static str)> = None; // (ord, t, why)
    let mut reset_state: Option<St> = None;
    let mut established_ord: Option<u64> = if spc.incoming { None } else { Some(0) };
    // once the endpoint has sent its FIN it gives the remote a "final chance" of 1 s of silence and
    // then ends quietly: from then on the observer cannot know whether it is still there
    let mut own_fin_first_t: Option<u64> = None;
    let maybe_gone = false;
    // exact end of the connection task, from the crate's cfg-guarded observer hook
    let end_ev = res.conn_events.iter().find(|e| e.kind == "vsock-end");
    for r in res.log.iter().filter(|r| r.pkt.is_some()) {
        if let Some(e) = end_ev { if e.ord < r.ord && closed.is_none() { closed = Some((e.ord, e.t_us, if e.error == "none" { "clean-end" } else { "error" })); st = St::Closed; } }
        let p = r.pkt.as_ref().unwrap();
        if r.src == sock {
            if p.ptype == refparse::ST_FIN && p.conn_id == res.id_to_peer && matches!(st, St::Established | St::SynAckSent) {
                st = St::FinWait1;
            }
            if p.ptype == refparse::ST_FIN && p.conn_id == res.id_to_peer { own_fin_first_t.get_or_insert(r.t_us); }
            continue;
        }
        if r.dst != sock || p.conn_id != res.id_to_sock || p.ptype == refparse::ST_SYN || st == St::Closed || maybe_gone { continue; }
        if p.ptype == refparse::ST_RESET {
            reset_state = Some(st);
            st = St::Closed;
            closed = Some((r.ord, r.t_us, "reset"));
            continue;
        }
        let k = dist(p.seq, res.peer_first_seq);
        if st == St::SynAckSent {
            if matches!(p.ptype, refparse::ST_DATA | refparse::ST_STATE) && Some(p.ack) == s_minus_1 { st = St::Established; established_ord = Some(r.ord); }
            else if p.ptype == refparse::ST_FIN && k == contig + 1 { st = St::Closed; closed = Some((r.ord, r.t_us, "fin-in-synacksent")); continue; }
            else { if p.ptype == refparse::ST_FIN && k > contig + 1 { peer_fin_ooo.push((r, p.seq)); } continue; }
        }
        let before = st;
        let last_consumed = res.peer_first_seq.wrapping_add(contig as u16); // seq of the last in-order packet
        let mut fin_in_seq = false;
        match p.ptype {
            refparse::ST_DATA => {
                if k >= 0 && peer_fin_in_seq.is_none() { got.insert(k); }
                while got.contains(&(contig + 1)) { contig += 1; }
            }
            refparse::ST_FIN => {
                if peer_fin_in_seq.is_none() {
                    if k == contig + 1 { fin_in_seq = true; contig += 1; peer_fin_in_seq = Some((r, p.seq, before)); } else if k > contig + 1 { peer_fin_ooo.push((r, p.seq)); }
                }
            }
            _ => {}
        }
        let acks_our_fin = our_fin_seq.is_some_and(|f| p.ack == f);
        st = match before {
            St::Established => if fin_in_seq { St::LastAck } else { St::Established },
            St::FinWait1 => {
                if fin_in_seq && acks_our_fin { St::Closed }
                else if fin_in_seq { St::LastAck }
                else if acks_our_fin && matches!(p.ptype, refparse::ST_DATA | refparse::ST_STATE) {
                    // "some clients send back FIN+ACK as STATE with seq_nr + 1": documented heuristic
                    if p.ptype == refparse::ST_STATE && dist(p.seq, last_consumed) == 1 { St::Closed } else { St::FinWait2 }
                } else { St::FinWait1 }
            }
            St::FinWait2 => if fin_in_seq { St::Closed } else { St::FinWait2 },
            St::LastAck => if acks_our_fin { St::Closed } else { St::LastAck },
            x => x,
        };
        if st == St::LastAck && !spc.sock.wait_lastack { st = St::Closed; }
        if st == St::Closed && closed.is_none() { closed = Some((r.ord, r.t_us, "handshake-complete")); }
    }
    let reset_rx = rx.iter().find(|r| { let p = r.pkt.as_ref().unwrap(); p.ptype == refparse::ST_RESET && p.conn_id == res.id_to_sock && reset_state.is_some() }).filter(|_| reset_state != Some(St::Closed));
    let close_req = res.app.iter().filter(|a| matches!(a.ev, AppEv::ShutdownOk | AppEv::ShutdownErr(_))).map(|a| (a.t_start_us, a.ord)).next();
    let wdrop = res.app.iter().find(|a| matches!(a.ev, AppEv::WriterDropped)).map(|a| (a.t_us, a.ord));
    let rdrop = res.app.iter().find(|a| matches!(a.ev, AppEv::ReaderDropped)).map(|a| (a.t_us, a.ord));
    // the shutdown call may still be pending at the end (it resolves when the FIN is acked): find its start from the script
    let shutdown_asked = case_has(&spc.steps, |s| matches!(s, Step::W(WOp::Shutdown)));
    let _ = shutdown_asked;
    let own_close: Option<(u64, u64)> = match (close_req, wdrop, rdrop) {
        (Some(c), _, _) => Some(c),
        (None, Some(w), Some(r)) => Some(if w.1 > r.1 { w } else { r }),
        _ => None,
    };
    // time the shutdown was *called* (the ShutdownOk record carries its start); a shutdown still pending at the end left no record: recover from the step trace
    let shutdown_call_t = shutdown_time(spc, res);
    // a shutdown() future dropped while still pending (W(Drop) after W(Shutdown)) is not a completed request
    let shutdown_resolved = res.app.iter().any(|a| matches!(a.ev, AppEv::ShutdownOk | AppEv::ShutdownErr(_)));
    let shutdown_call_t = if !shutdown_resolved && wdrop.is_some() { None } else { shutdown_call_t };
    let shutdown_cancelled = !shutdown_resolved && wdrop.is_some() && res.shutdown_called_at_us.is_some();
    // an acknowledgement of data that was never transmitted makes the endpoint skip that data
    let future_ack_seen = rx.iter().any(|r| { let p = r.pkt.as_ref().unwrap(); p.conn_id == res.id_to_sock && matches!(p.ptype, refparse::ST_STATE | refparse::ST_DATA | refparse::ST_FIN) && { let high = own_data.iter().filter(|d| d.ord < r.ord).map(|d| dist(d.pkt.as_ref().unwrap().seq, first)).max().unwrap_or(-1); let a = dist(p.ack, first); a > high && a < high + 1000 && (high >= 0 || a >= 0) } });
    let own_close_t: Option<u64> = match (shutdown_call_t, wdrop, rdrop) {
        (Some(t), _, _) => Some(t),
        (None, Some(w), Some(r)) => Some(w.0.max(r.0)),
        _ => own_close.map(|c| c.0),
    };
    let died_err = res.read_err.clone().or(res.write_err.clone());

    // ---------------- (b) own FIN properties (whoever initiated)
    if let Some(f0) = own_fins.first() {
        let fpk = f0.pkt.as_ref().unwrap();
        labels.insert("own_fin_sent");
        // seq = number following the last data segment
        let last_data_before: Option<u16> = own_data.iter().filter(|d| d.ord < f0.ord).map(|d| d.pkt.as_ref().unwrap().seq).max_by_key(|s| dist(*s, first));
        let want = last_data_before.map(|s| s.wrapping_add(1)).unwrap_or(first);
        let death = died_err.is_some() || end_ev.is_some_and(|e| e.ord < f0.ord);
        if fpk.seq != want && !death && !future_ack_seen {
            viol!("fin-seq", "own FIN log #{} has seq {} but the last data segment sent before it is {:?} (expected FIN seq {})", f0.idx, fpk.seq, last_data_before, want);
        }
        // no new payload after the FIN
        let high_before = last_data_before.map(|s| dist(s, first)).unwrap_or(-1);
        if let Some(d) = own_data.iter().find(|d| d.ord > f0.ord && dist(d.pkt.as_ref().unwrap().seq, first) > high_before) {
            viol!("data-after-fin", "log #{}: new payload (seq {}, {} bytes) transmitted after the endpoint's own FIN (log #{}, seq {})", d.idx, d.pkt.as_ref().unwrap().seq, d.pkt.as_ref().unwrap().payload.len(), f0.idx, fpk.seq);
        }
        // all FIN transmissions carry the same seq
        if let Some(f) = own_fins.iter().find(|f| f.pkt.as_ref().unwrap().seq != fpk.seq) {
            viol!("fin-seq-changed", "FIN retransmission log #{} has seq {} but the first FIN had {}", f.idx, f.pkt.as_ref().unwrap().seq, fpk.seq);
        }
        // retransmission stops once an ack of the FIN was delivered (strictly earlier instant)
        // (an out-of-sequence FIN is dropped whole, including the acknowledgement it carries; in SynAckSent only packets acking the SYN-ACK are processed)
        let fin_acked_at = rx.iter().find(|r| { let p = r.pkt.as_ref().unwrap(); p.conn_id == res.id_to_sock && (matches!(p.ptype, refparse::ST_STATE | refparse::ST_DATA) || peer_fin_in_seq.as_ref().is_some_and(|(f, _, _)| f.ord == r.ord)) && r.ord > f0.ord && p.ack == fpk.seq && established_ord.is_some_and(|o| o <= r.ord) }).map(|r| r.t_us);
        if let Some(ta) = fin_acked_at {
            if let Some(f) = own_fins.iter().find(|f| f.t_us > ta) {
                viol!("fin-retransmitted-after-ack", "FIN log #{} retransmitted at t={} us although its acknowledgement was delivered at t={} us", f.idx, f.t_us, ta);
            }
            labels.insert("own_fin_acked");
        }
        // back-off between FIN retransmissions while nothing is delivered
        let mut chain: Vec<u64> = vec![];
        for f in &own_fins {
            if rx.iter().any(|r| chain.last().is_some_and(|l| r.t_us > *l && r.t_us <= f.t_us)) { chain.clear(); }
            chain.push(f.t_us);
            if chain.len() >= 3 {
                let g1 = chain[chain.len() - 2] - chain[chain.len() - 3];
                let g2 = chain[chain.len() - 1] - chain[chain.len() - 2];
                // (by design a timeout attributed to an outstanding size probe does not back off — "presumably lost
                // due to its size, not congestion" — and the FIN behind it is resent along with it: no doubling is
                // demanded while the oldest unacknowledged data packet is an oversize probe, i.e. larger than the first
                // data packet of the connection)
                let base_len = own_data.first().map(|d| d.pkt.as_ref().unwrap().payload.len()).unwrap_or(0);
                let probe_rides = own_data.iter().any(|d| d.t_us == f.t_us && d.pkt.as_ref().unwrap().payload.len() > base_len.max(528));
                if g2.abs_diff((2 * g1).min(60_000_000)) > 2_000 && chain.len() > 3 && !probe_rides {
                    viol!("fin-backoff", "FIN retransmissions spaced {} us then {} us with nothing delivered in between (expected doubling)", g1, g2);
                }
                labels.insert("fin_retransmitted_twice");
            }
        }
        if own_fins.len() >= 2 { labels.insert("fin_retransmitted"); }
        // "is retransmitted on timeout until acknowledged or the connection gives up": after a FIN transmission, a
        // stretch in which the connection task lives, nothing at all is delivered to the socket and no data segment
        // is outstanding cannot outlast the retransmission timeout without another FIN transmission. The timeout is
        // not modelled exactly, only bounded from above:
        //  * after a FIN retransmission that followed its predecessor by g with nothing delivered in between: 2 g
        //  * otherwise max(initial RTO, 5 x largest possible RTT sample + 10 ms) (RFC 6298: srtt <= largest sample,
        //    rttvar <= largest sample), doubled once per retransmission of anything emitted so far
        {
            let init_rto = librqbit_utp::verif_hooks::RttEstimator::default().retransmission_timeout().as_micros() as u64;
            // largest possible RTT sample: delivery of a datagram minus the first transmission of the oldest own
            // packet (SYN / SYN-ACK, DATA, FIN) that nothing delivered earlier could have acknowledged
            let mut s_max = 0u64;
            {
                let mut oldest_open: Option<u64> = tx.first().map(|t| t.t_us);
                let mut seen_seq: BTreeSet<u16> = BTreeSet::new();
                for r in res.log.iter().filter(|r| r.pkt.is_some()) {
                    let p = r.pkt.as_ref().unwrap();
                    if r.src == sock {
                        if matches!(p.ptype, refparse::ST_DATA | refparse::ST_FIN) && seen_seq.insert(p.seq) && oldest_open.is_none() { oldest_open = Some(r.t_us); }
                    } else if r.dst == sock {
                        if let Some(t0) = oldest_open { s_max = s_max.max(r.t_us.saturating_sub(t0)); }
                        // whatever it acknowledged, the next sample cannot start before the next first transmission
                        // … unless older packets stay open: keep the bound conservative by not closing on partial acks
                        let acks_all = own_data.iter().chain(own_fins.iter()).filter(|d| d.ord < r.ord).all(|d| { let a = dist(p.ack, d.pkt.as_ref().unwrap().seq); (0..1000).contains(&a) });
                        if acks_all && p.conn_id == res.id_to_sock && matches!(p.ptype, refparse::ST_STATE | refparse::ST_DATA | refparse::ST_FIN) { oldest_open = None; }
                    }
                }
            }
            let base = init_rto.max(200_000).max(5 * s_max + 10_000);
            for (i, f) in own_fins.iter().enumerate() {
                // no data outstanding: every data segment transmitted so far was acknowledged by something delivered before this FIN
                let data_open = own_data.iter().filter(|d| d.ord < f.ord).any(|d| { let ds = d.pkt.as_ref().unwrap().seq; !rx.iter().any(|x| x.ord < f.ord && { let q = x.pkt.as_ref().unwrap(); q.conn_id == res.id_to_sock && matches!(q.ptype, refparse::ST_STATE | refparse::ST_DATA | refparse::ST_FIN) && (0..1000).contains(&dist(q.ack, ds)) }) });
                if data_open || !established_ord.is_some_and(|o| o < f.ord) || future_ack_seen { continue; }
                let retx_before = { let mut seen: BTreeSet<(u8, u16)> = BTreeSet::new(); tx.iter().filter(|t| t.ord <= f.ord).filter(|t| { let q = t.pkt.as_ref().unwrap(); !seen.insert((q.ptype, q.seq)) }).count() as u32 };
                let prev_gap = if i >= 1 && !rx.iter().any(|r| r.t_us > own_fins[i - 1].t_us && r.t_us <= f.t_us) { Some(f.t_us - own_fins[i - 1].t_us) } else { None };
                let bound = match prev_gap {
                    Some(g) if g >= 200_000 => (2 * g).min(60_000_000),
                    _ => base.saturating_mul(1u64 << retx_before.min(9)).min(60_000_000),
                } + 5_000;
                let until = f.t_us + bound;
                let next_fin = own_fins.get(i + 1).map(|n| n.t_us);
                let alive = end_ev.is_none_or(|e| e.t_us > until) && res.t_end_us > until;
                let quiet = !rx.iter().any(|r| r.t_us > f.t_us && r.t_us <= until) && !rx.iter().any(|r| r.ord > f0.ord && r.t_us <= f.t_us && { let q = r.pkt.as_ref().unwrap(); q.conn_id == res.id_to_sock && (q.ptype == refparse::ST_RESET || (0..1000).contains(&dist(q.ack, fpk.seq))) });
                if alive && quiet { labels.insert("fin_retx_due"); }
                if alive && quiet && next_fin.is_none_or(|n| n > until) {
                    viol!("fin-not-retransmitted", "own FIN (seq {}) transmitted at t={} us (log #{}) was not acknowledged, nothing was delivered to the socket and no data was outstanding, the connection task lived on beyond t={} us, yet no retransmission followed within {} us (upper bound of the retransmission timeout: {})", fpk.seq, f.t_us, f.idx, until, bound, match prev_gap { Some(g) if g >= 200_000 => format!("twice the previous interval of {g} us"), _ => format!("max(initial {init_rto} us, 5 x largest RTT sample {s_max} us + 10 ms) x 2^{retx_before} retransmissions so far") });
                }
            }
        }
        // own-initiative close: every byte accepted before the close was first-transmitted before the FIN
        if let (Some(tc), None) = (own_close_t.filter(|t| *t <= f0.t_us), &peer_fin_in_seq) {
            if !death && reset_rx.is_none() {
                let written_before_close: u64 = res.app.iter().filter(|a| a.t_us <= tc).map(|a| if let AppEv::Wrote(n) = a.ev { n as u64 } else { 0 }).sum();
                let mut seen = BTreeSet::new();
                let sent_before_fin: u64 = own_data.iter().filter(|d| d.ord < f0.ord && seen.insert(d.pkt.as_ref().unwrap().seq)).map(|d| d.pkt.as_ref().unwrap().payload.len() as u64).sum();
                // (a FIN can also be the last breath of a dying connection: only a demonstrably healthy
                // one is held to this — handshake complete, no segment at its retransmission limit,
                // the remote heard from within the inactivity limit)
                let mut counts: std::collections::BTreeMap<u16, usize> = Default::default();
                for d in own_data.iter().filter(|d| d.ord < f0.ord) { *counts.entry(d.pkt.as_ref().unwrap().seq).or_default() += 1; }
                let acked_upto = |seq: u16| rx.iter().any(|x| x.ord < f0.ord && { let q = x.pkt.as_ref().unwrap(); q.conn_id == res.id_to_sock && matches!(q.ptype, refparse::ST_STATE | refparse::ST_DATA) && dist(q.ack, seq) >= 0 && dist(q.ack, seq) < 1000 });
                let at_limit = counts.iter().any(|(seq, c)| *c > spc.sock.max_retx as usize && !acked_upto(*seq));
                let last_rx_before = rx.iter().filter(|r| r.ord < f0.ord).map(|r| r.t_us).max().unwrap_or(0);
                let _ = (at_limit, last_rx_before);
                // exact: the observer hook tells whether this FIN is the last breath of a failed connection
                let healthy = established_ord.is_some_and(|o| o < f0.ord) && !end_ev.is_some_and(|e| e.ord < f0.ord);
                if sent_before_fin < written_before_close && healthy && !future_ack_seen {
                    viol!("fin-before-data", "own FIN log #{} emitted after only {} of the {} bytes accepted before the close had been transmitted", f0.idx, sent_before_fin, written_before_close);
                }
                labels.insert("own_initiative_close");
            }
        }
    }
    // existence: after an own-initiative close, once everything written has been acknowledged and the
    // connection is alive, the FIN is due at that very instant
    if let Some(tc) = own_close_t {
        if reset_rx.is_none() && established_ord.is_some() && res.established && !shutdown_cancelled && !future_ack_seen {
            let written: u64 = res.app.iter().map(|a| if let AppEv::Wrote(n) = a.ev { n as u64 } else { 0 }).sum();
            // instant at which all data was acknowledged: first rx whose ack covers the last data seq, with all bytes transmitted
            let mut seen = BTreeSet::new();
            let total_sent: u64 = own_data.iter().filter(|d| seen.insert(d.pkt.as_ref().unwrap().seq)).map(|d| d.pkt.as_ref().unwrap().payload.len() as u64).sum();
            let last_seq = own_data.iter().map(|d| d.pkt.as_ref().unwrap().seq).max_by_key(|s| dist(*s, first));
            let t_all_acked: Option<u64> = if written == 0 { Some(0) } else if total_sent >= written {
                last_seq.and_then(|ls| rx.iter().find(|r| { let p = r.pkt.as_ref().unwrap(); p.conn_id == res.id_to_sock && matches!(p.ptype, refparse::ST_STATE | refparse::ST_DATA) && dist(p.ack, ls) >= 0 && dist(p.ack, ls) < 1000 && own_data.iter().any(|d| d.pkt.as_ref().unwrap().seq == ls && d.ord < r.ord) }).map(|r| r.t_us))
            } else { None };
            if let Some(ta) = t_all_acked {
                let due = tc.max(ta);
                // shutdown() on an idle connection emits the FIN at once; when both halves are merely
                // dropped the connection task learns of it at its next poll, at the latest at the 5 s
                // housekeeping tick of its task (nothing in the property promises more)
                let by_shutdown = shutdown_call_t.is_some();
                let due = if by_shutdown { due } else { due + 5_100_000 };
                let alive_until = end_ev.map(|e| e.t_us).unwrap_or(res.t_end_us);
                let alive_long_enough = died_err.is_none() && alive_until > due + 100_000;
                let fin_t = own_fins.first().map(|f| f.t_us);
                let peer_fin_first = peer_fin_in_seq.as_ref().is_some_and(|(r, _, _)| r.t_us <= due);
                if alive_long_enough && !peer_fin_first {
                    match fin_t {
                        None => viol!("fin-never-sent", "the application closed at t={} us, all {} written bytes were acknowledged by t={} us, the connection stayed alive until t={} us, but no FIN was ever emitted", tc, written, ta, res.t_end_us),
                        Some(t) if t > due => viol!("fin-late", "the application closed at t={} us and everything was acknowledged by t={} us, but the FIN left only at t={} us", tc, ta, t),
                        _ => {}
                    }
                    labels.insert("fin_due_checked");
                }
            }
        }
    }

    // ---------------- (c) peer FIN
    for (r, seq) in &peer_fin_ooo {
        // out of sequence: never acknowledged, no EOF, unless it later arrived in sequence
        if peer_fin_in_seq.is_none() {
            if let Some(t) = tx.iter().find(|t| t.ord > r.ord && t.pkt.as_ref().unwrap().conn_id == res.id_to_peer && t.pkt.as_ref().unwrap().ack == *seq && t.pkt.as_ref().unwrap().ptype != refparse::ST_RESET) {
                viol!("ooo-fin-acked", "log #{}: ack_nr {} acknowledges the peer's FIN log #{} which arrived out of sequence (expected seq {})", t.idx, seq, r.idx, res.peer_first_seq.wrapping_add((contig + 1) as u16));
            }
            if res.eof {
                viol!("ooo-fin-eof", "the reader got end-of-stream although the peer's FIN (seq {}) arrived out of sequence and never became in sequence", seq);
            }
            labels.insert("peer_fin_out_of_sequence");
        }
    }
    if let Some((r, seq, before)) = &peer_fin_in_seq {
        labels.insert("peer_fin_in_sequence");
        labels.insert(match before { St::Established => "edge_established_lastack", St::FinWait1 => "edge_finwait1_lastack_or_closed", St::FinWait2 => "edge_finwait2_closed", _ => "edge_other" });
        // acknowledged at the same instant
        let acked = tx.iter().find(|t| t.ord > r.ord && t.t_us == r.t_us && t.pkt.as_ref().unwrap().conn_id == res.id_to_peer && t.pkt.as_ref().unwrap().ack == *seq);
        if acked.is_none() {
            viol!("peer-fin-not-acked", "the peer's in-sequence FIN log #{} (seq {}, state {:?}) was not acknowledged at the instant it arrived (t={} us)", r.idx, seq, before, r.t_us);
        }
        if *before == St::Established {
            // answered with the endpoint's own FIN: at the same instant when nothing is pending
            let written_before: u64 = res.app.iter().filter(|a| a.ord < r.ord).map(|a| if let AppEv::Wrote(n) = a.ev { n as u64 } else { 0 }).sum();
            let mut seen = BTreeSet::new();
            let sent_before: u64 = own_data.iter().filter(|d| d.ord < r.ord && seen.insert(d.pkt.as_ref().unwrap().seq)).map(|d| d.pkt.as_ref().unwrap().payload.len() as u64).sum();
            let fin_same_instant = own_fins.iter().any(|f| f.t_us == r.t_us && f.ord > r.ord);
            if sent_before >= written_before {
                // the FIN gate also waits for retransmissions after a timeout rewind; assert only when nothing is outstanding
                let last_seq = own_data.iter().filter(|d| d.ord < r.ord).map(|d| d.pkt.as_ref().unwrap().seq).max_by_key(|s| dist(*s, first));
                let all_acked = last_seq.is_none_or(|ls| { let sent_ord = own_data.iter().find(|d| d.pkt.as_ref().unwrap().seq == ls).map(|d| d.ord).unwrap_or(u64::MAX); rx.iter().any(|x| { let p = x.pkt.as_ref().unwrap(); x.ord <= r.ord && x.ord > sent_ord && p.conn_id == res.id_to_sock && matches!(p.ptype, refparse::ST_STATE | refparse::ST_DATA | refparse::ST_FIN) && dist(p.ack, ls) >= 0 && dist(p.ack, ls) < 1000 }) });
                if all_acked && !fin_same_instant {
                    viol!("peer-fin-not-answered", "the peer's in-sequence FIN log #{} arrived at t={} us with nothing pending, but the endpoint's own FIN was not emitted at that instant", r.idx, r.t_us);
                }
            } else {
                labels.insert("peer_fin_with_untransmitted_payload");
            }
        }
        // writes fail afterwards (uTP has no half-close)
        if let Some(w) = res.app.iter().find(|a| a.t_us > r.t_us && matches!(a.ev, AppEv::Wrote(_))) {
            viol!("write-after-peer-fin", "a write was accepted at t={} us although the peer's FIN had been received at t={} us (uTP has no half-close)", w.t_us, r.t_us);
        }
        // reader: buffered bytes, then EOF
        let read_after = case.evs.iter().any(|e| matches!(e, Step::R(ROp::Read { .. })));
        if read_after && rdrop.is_none() && !res.eof && res.read_err.is_none() && res.t_end_us > r.t_us + 50_000 {
            viol!("no-eof-after-peer-fin", "the peer's in-sequence FIN was received at t={} us, a read was issued, but it saw neither end-of-stream nor an error by t={} us", r.t_us, res.t_end_us);
        }
    }

    // ---------------- (d) RESET
    if let (Some(r), Some(before)) = (reset_rx, reset_state) {
        labels.insert("reset_received");
        // nothing is emitted in reply or afterwards
        if let Some(t) = tx.iter().find(|t| t.ord > r.ord && t.t_us > r.t_us && t.pkt.as_ref().unwrap().conn_id == res.id_to_peer) {
            viol!("reply-to-reset", "log #{}: {} emitted after the RESET log #{} had been received (state {:?})", t.idx, t.pkt.as_ref().unwrap().short(), r.idx, before);
        }
        let p = r.pkt.as_ref().unwrap();
        let clean = before == St::LastAck && our_fin_seq == Some(p.ack);
        for a in res.app.iter().filter(|a| a.ord > r.ord) {
            match &a.ev {
                AppEv::Wrote(_) => viol!("write-after-reset", "a write succeeded at t={} us after the RESET received at t={} us", a.t_us, r.t_us),
                AppEv::ReadErr(_) | AppEv::WriteErr(_) | AppEv::ShutdownErr(_) | AppEv::FlushErr(_) => {
                    if a.t_us != r.t_us && a.t_start_us <= r.t_us {
                        viol!("reset-not-at-once", "an operation pending when the RESET arrived (t={} us) failed only at t={} us", r.t_us, a.t_us);
                    }
                    labels.insert("reset_surfaced_error");
                }
                AppEv::Eof => {
                    let fin_before = peer_fin_in_seq.as_ref().is_some_and(|(f, _, _)| f.ord < r.ord);
                    if !clean && !fin_before {
                        viol!("reset-clean-eof", "the reader saw a clean end-of-stream after a RESET (state {:?}) although the peer's FIN had not been received before it", before);
                    }
                }
                _ => {}
            }
        }
        // a read pending at the RESET must have failed (with an error unless the close handshake was already answered)
        let read_pending = res.app.iter().all(|a| !matches!(a.ev, AppEv::Eof | AppEv::ReadErr(_) | AppEv::ReaderDropped) || a.ord > r.ord) && case.evs.iter().any(|e| matches!(e, Step::R(ROp::Read { .. }))) && res.app.iter().any(|_| true);
        let read_issued_before = true;
        if read_pending && read_issued_before && rdrop.is_none() && !clean && res.read_err.is_none() && !res.eof && res.t_end_us > r.t_us + 10_000 && read_was_issued_before(spc, res, r.t_us) {
            viol!("reset-no-error", "a read was pending when the RESET arrived at t={} us (state {:?}) but it never failed", r.t_us, before);
        }
        if clean { labels.insert("reset_in_lastack_acks_fin"); }
    }
    // after the connection ended nothing more is emitted for it (at a later instant)
    let closed = closed.or(end_ev.map(|e| (e.ord, e.t_us, if e.error == "none" { "clean-end" } else { "error" })));
    if let Some((_, t, why)) = closed {
        {
            if let Some(x) = tx.iter().find(|x| x.t_us > t && x.pkt.as_ref().unwrap().conn_id == res.id_to_peer) {
                viol!("emission-after-close", "log #{}: {} emitted at t={} us although the connection had ended at t={} us ({})", x.idx, x.pkt.as_ref().unwrap().short(), x.t_us, t, why);
            }
            labels.insert("closed_then_silent");
        }
    }

    for t in &tx {
        let p = t.pkt.as_ref().unwrap();
        fp.add(((p.ptype as u64) << 32) ^ (dist(p.seq, first) as u64 & 0xffff) << 8 ^ (t.t_us / 1000) % 251);
    }
    let left_established = !own_fins.is_empty() || reset_rx.is_some() || peer_fin_in_seq.is_some();
    let _ = established_ord;
    let odd_control = !peer_fin_ooo.is_empty() || own_fins.len() >= 2 || case.evs.iter().any(|e| matches!(e, Step::Peer(PeerOp::SynDup) | Step::Peer(PeerOp::Ack { back: 1, .. }) | Step::Peer(PeerOp::Ack { back: -2, .. }) | Step::Peer(PeerOp::Data { dseq: -1, .. }) | Step::Peer(PeerOp::Data { dseq: 2, .. }) | Step::Peer(PeerOp::Fin { dseq: -1 }) | Step::Peer(PeerOp::Fin { dseq: 2 })));
    let nontrivial = left_established && odd_control;
    (None, labels.into_iter().collect(), nontrivial, fp.get())
}

fn case_has(steps: &[Step], f: impl Fn(&Step) -> bool) -> bool {
    steps.iter().any(f)
}

/// virtual time at which the script issued W(Shutdown), reconstructed from the app log (the
/// ShutdownOk/Err record carries its start) or, when still pending at the end, unknown
fn shutdown_time(_spc: &SpCase, res: &SpResult) -> Option<u64> {
    res.app.iter().find(|a| matches!(a.ev, AppEv::ShutdownOk | AppEv::ShutdownErr(_))).map(|a| a.t_start_us).or(res.shutdown_called_at_us)
}

/// was an R(Read) step issued before virtual time t?
fn read_was_issued_before(_spc: &SpCase, res: &SpResult, t: u64) -> bool {
    res.read_issued_at_us.is_some_and(|x| x < t)
}

#[allow(dead_code)]
fn died_before(res: &SpResult, ord: u64) -> bool {
    // the endpoint reported an error to the application before `ord`
    res.app.iter().any(|a| a.ord < ord && matches!(a.ev, AppEv::ReadErr(_) | AppEv::WriteErr(_)))
}

pub struct Sp;
impl CheckDef for Sp {
    type Case = Case;
    const NAME: &'static str = "sp";
    fn strategy(tier: Tier) -> BoxedStrategy<Case> {
        let alpha = alphabet();
        let n = alpha.len();
        (0u8..N_STARTS, any::<bool>(), any::<bool>(), 1u8..6, prop_oneof![any::<u16>(), (65500u32..65536).prop_map(|x| x as u16)], prop::collection::vec(any::<u16>(), 3), prop::collection::vec((0..n).prop_map(move |i| alpha[i].clone()), 1..tier.pick(12, 20)))
            .prop_map(|(start, incoming, wait_lastack, max_retx, isn, rnd, evs)| Case { start, incoming, wait_lastack, max_retx, isn, link_mtu: if rnd[0] % 2 == 0 { 576 } else { 1500 }, rnd, evs })
            .boxed()
    }
    fn run(case: &Case, trace: bool) -> Outcome {
        let spc = build(case);
        let res = sp::run(&spc, trace);
        if !res.established && !(spc.incoming && !spc.complete_handshake) {
            return Outcome::discard(format!("handshake did not complete: {:?}", res.handshake_err));
        }
        let (v, labels, nontrivial, fp) = oracle(case, &spc, &res);
        if let Some((sig, detail)) = v {
            return Outcome::violation(format!("sp/{sig}"), detail);
        }
        let mut o = Outcome::pass();
        o.labels = labels;
        o.nontrivial = nontrivial;
        o.fingerprint = fp;
        o
    }
}

/// all sequences of length <= depth from each start state
fn exhaustive(ctx: &mut Ctx, depth: usize) {
    let alpha = alphabet();
    let n = alpha.len();
    let mut total = 0u64;
    for d in 1..=depth { total += (n as u64).pow(d as u32); }
    let total = total * N_STARTS as u64 * 2 * 2;
    let results: Vec<(u64, BTreeSet<u64>, std::collections::BTreeMap<&'static str, u64>, Option<(Case, String, String)>)> = std::thread::scope(|s| {
        let alpha = &alpha;
        let hs: Vec<_> = (0..SHARDS).map(|sh| s.spawn(move || {
            install_panic_hook();
            let mut evals = 0u64; let mut fps = BTreeSet::new(); let mut labels = std::collections::BTreeMap::new(); let mut fail = None;
            let mut idx = 0u64;
            // both link settings: without size probing (576) and with it (1500: a probe follows the first ack)
            for (start, link_mtu) in (0..N_STARTS).flat_map(|s| [(s, 576u16), (s, 1500u16)]) {
                for incoming in [false, true] {
                    for d in 1..=depth {
                        let count = n.pow(d as u32);
                        for code in 0..count {
                            idx += 1;
                            if idx % SHARDS as u64 != sh as u64 { continue; }
                            let mut c = code; let mut evs = vec![];
                            for _ in 0..d { evs.push(alpha[c % n].clone()); c /= n; }
                            let case = Case { start, incoming, wait_lastack: true, max_retx: 3, isn: 65534, rnd: vec![100, 65533, 9000], evs, link_mtu };
                            let out = run_guarded::<Sp>(&case, false);
                            evals += 1;
                            match out.verdict {
                                Verdict::Violation { signature, detail } => { if fail.is_none() && findings().known("C17", &signature).is_none() { fail = Some((case, signature, detail)); } }
                                _ => { if out.nontrivial { fps.insert(out.fingerprint); } for l in out.labels { *labels.entry(l).or_insert(0u64) += 1; } }
                            }
                        }
                    }
                }
            }
            (evals, fps, labels, fail)
        })).collect();
        hs.into_iter().map(|h| h.join().unwrap()).collect()
    });
    let mut evals = 0; let mut fps = BTreeSet::new(); let mut labels = std::collections::BTreeMap::new();
    for (e, f, l, fail) in results {
        evals += e; fps.extend(f);
        for (k, v) in l { *labels.entry(k).or_insert(0u64) += v; }
        if let Some((case, sig, detail)) = fail { ctx.report_violation::<Sp>(&case, &sig, &detail); }
    }
    ctx.record_manual("exhaustive", evals, fps, labels, vec![json!({"start": 4, "incoming": false, "events": ["Peer(Fin{dseq:2})", "Adv(200)", "Peer(Ack{back:0})"]})], 0);
    ctx.extra("exhaustive_depth", json!(depth));
    ctx.extra("exhaustive_sequences", json!(total));
}

pub fn run(ctx: &mut Ctx) {
    ctx.rule("SP: event alphabet of 24 events (peer: SYN dup, STATE acking everything/stale/future, DATA next/ahead/old, FIN next/next+ack/ahead/old, RESET acking our FIN or not; application: write small/multi-segment, shutdown, drop writer, drop reader, read; clock: 40 ms, 200 ms, 1 s, 11 s) from 7 start states x 2 handshake directions; exhaustive for all sequences up to depth 2 (quick) / 3 (thorough) plus generated sequences up to 12/20 events. Observer oracle on the wire log: SYN-ACK form/interval/count; own FIN seq = last data + 1, after all accepted data, no new payload after it, retransmitted with back-off until acked — and retransmitted at all: with the task alive, nothing delivered and no data outstanding the next FIN transmission follows within an upper bound of the timeout (2x the previous interval, or max(initial RTO, 5x largest possible RTT sample + 10 ms) x 2^retransmissions so far) —, due at once when everything is acknowledged; peer FIN honoured only in sequence, acked and answered at the same instant; RESET: nothing emitted afterwards, pending operations fail at once. non-trivial = leaves Established and contains an out-of-order/duplicate/stale control datagram; distinct by hash of the emitted (type, relative seq, ms) sequence");
    ctx.replay_corpus::<Sp>();
    exhaustive(ctx, ctx.tier.pick(3, 4));
    ctx.run_generated::<Sp>(ctx.tier.pick(60_000, 3_000_000));
}

pub fn replay(v: &Value) -> Option<i32> {
    replay_file::<Sp>("C17", v)
}
