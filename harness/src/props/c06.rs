//! C06 — Retransmission discipline: back-off, fast retransmit, bounded, stable content (SP).
use std::collections::{BTreeMap, BTreeSet};

use proptest::prelude::*;
use serde::{Deserialize, Serialize};
use serde_json::Value;

use crate::engine::*;
use crate::model::{
    bytestream, refparse,
    sender::{SenderObs, TxKind},
};
use crate::props::txgen::{self, AckClass, TxGen};
use crate::sim::{
    app::{AppEv, Stream, WOp},
    sp::{self, Ev, PeerOp, SpCase, SpResult, Step},
};

#[derive(Clone, Debug, Serialize, Deserialize)]
pub struct Case {
    pub sp: SpCase,
}

const TOL_US: u64 = 2_000;
const MIN_RTO_US: u64 = 200_000;
const MAX_RTO_US: u64 = 60_000_000;

pub fn oracle(case: &SpCase, res: &SpResult) -> (Option<(String, String)>, Vec<&'static str>, bool, u64) {
    let mut labels: BTreeSet<&'static str> = BTreeSet::new();
    let mut fp = Fp::default();
    let first = res.sock_first_seq.unwrap_or(0);
    let sock = res.sock_addr.unwrap();
    let peer = res.peer_addr.unwrap();
    macro_rules! viol {
        ($sig:expr, $($arg:tt)*) => { return (Some(($sig.to_string(), format!($($arg)*))), vec![], false, 0) };
    }

    // (b) stable content against the written stream (shared wire-content oracle)
    let rep = bytestream::check_direction(&res.log, sock, peer, res.id_to_peer, Stream::new(case.key, 0));
    if let Some((idx, seq, why)) = rep.bad {
        viol!("content-changed", "log #{idx} seq {seq}: {why}");
    }

    let mut obs = SenderObs::new(first, case.peer_wnd, case.sock.min_payload());
    {
        let mut cum = 0u64;
        for a in &res.app {
            if let crate::sim::app::AppEv::Wrote(n) = a.ev { cum += n as u64; obs.writes.push((a.t_us, cum)); }
        }
    }
    let app_times: BTreeSet<u64> = res.app.iter().filter(|a| matches!(a.ev, AppEv::Wrote(_) | AppEv::ShutdownOk | AppEv::WriterDropped)).map(|a| a.t_us).collect();
    let max_tx = 1 + case.sock.max_retx as usize;
    let mut last_rx_t: Option<u64> = None;
    let mut handshake_done = false;
    // timer-driven retransmission chain in the current quiet interval: (rel seq, times)
    let mut chain: Option<(i32, Vec<u64>, bool)> = None; // (rel seq, times, first element is certainly a timeout)
    let mut rto_count = 0u32;
    let mut fast_rtx = 0u32;
    let mut sack_processed = false;
    let mut max_chain = 0usize;
    // canonical fast-retransmit pattern tracking
    let mut ever_rto = false;
    let mut ever_recovery = false;
    let mut canon: Option<(u16, u32, u32, i32, u64)> = None; // (ack, wnd, dup count, expected rel to retransmit, t of advancing ack)
    let mut limit_hit_at: Option<u64> = None;
    // per segment, for each of its transmissions: was it a retransmission with no peer packet at that instant (= by timer)?
    let mut tx_by_timer: std::collections::BTreeMap<i32, Vec<bool>> = Default::default();
    let mut data_after_limit = false;
    // SACK evidence in any episode: `busy_until` = highest seq sent when a recovery episode (or a timeout) may have
    // started; until the cumulative ack reaches it the endpoint may legitimately ignore further evidence
    let mut busy_until: Option<i32> = None;
    // highest seq sent when a retransmission left at an instant at which the timer may have expired together with a
    // peer packet (K2): until it is acknowledged, resends are attributed to that possible timeout
    let mut gbn_until: Option<i32> = None;
    // the peer has been honest so far: never acknowledged (cumulatively or selectively) a packet that was not sent,
    // never moved its ack backwards. Only then is the endpoint's recovery state predictable from outside.
    let mut honest = true;
    let mut t_arm_latest: Option<u64> = None; // latest instant strictly before the current one at which the timer was (re)armed for sure
    let mut t_arm_next: Option<u64> = None;

    for ev in sp::events(res) {
        let t_ev = match &ev { Ev::Rx(r, _) | Ev::Tx(r, _) => r.t_us };
        if let Some(a) = t_arm_next { if t_ev > a { t_arm_latest = Some(a); t_arm_next = None; } }
        match ev {
            Ev::Rx(r, p) => {
                if p.ptype == refparse::ST_SYN || p.conn_id != res.id_to_sock { continue; }
                handshake_done = true;
                let cum_before = obs.st.cum;
                let was_recovery = obs.st.poss_recovery;
                {
                    let a = obs.rel(p.ack);
                    let top = obs.highest.max(obs.fin_rel.unwrap_or(-1));
                    if a > top || a < cum_before { honest = false; }
                    if p.sack_bits().iter().enumerate().any(|(i, b)| *b && a + 2 + i as i32 > obs.highest) { honest = false; }
                    if p.last_ext(1).is_some_and(|e| e.len() != 4 && e.len() != 8) { honest = false; }
                }
                obs.on_rx(r.t_us, p);
                last_rx_t = Some(r.t_us);
                chain = None; // something was delivered to the endpoint: the quiet interval ends
                if p.last_ext(1).is_some() { sack_processed = true; }
                // (an episode that this very packet ends was still in progress when the packet arrived: evidence it carries
                // is not "outside an episode")
                let episode_ended_by_this_packet = busy_until.is_some_and(|b| obs.st.cum >= b);
                if busy_until.is_some_and(|b| obs.st.cum >= b) { busy_until = None; }
                if gbn_until.is_some_and(|b| obs.st.cum >= b) { gbn_until = None; }
                if obs.st.cum > cum_before { t_arm_next = Some(r.t_us); }
                // one SACK naming >= 3 packets this endpoint really sent, beyond a missing one that it sent too:
                // "equivalent selective-ACK evidence" — outside an episode the missing packet is retransmitted at once
                {
                    let held: Vec<i32> = p.sack_bits().iter().take(64).enumerate().filter(|(_, b)| **b).map(|(i, _)| obs.rel(p.ack) + 2 + i as i32).filter(|k| *k > obs.st.cum && obs.segs.contains_key(k)).collect();
                    let missing = obs.st.cum + 1;
                    let evidence = held.len() >= 3 && obs.rel(p.ack) == obs.st.cum && obs.segs.contains_key(&missing) && !obs.st.sacked.contains(&missing);
                    if evidence {
                        if honest && busy_until.is_none() && !episode_ended_by_this_packet && obs.prev.sack_streak == 0 && obs.prev.dup_count == 0 {
                            let ok = res.log.iter().any(|x| x.src == sock && x.t_us == r.t_us && x.idx > r.idx && x.pkt.as_ref().is_some_and(|q| q.ptype == refparse::ST_DATA && obs.rel(q.seq) == missing));
                            if !ok {
                                viol!("fast-retransmit-missing", "log #{}: a selective ack delivered at t={} us reports {} packets held beyond the missing seq {} while no recovery episode or timeout is in progress (everything sent before the last episode is acknowledged), but seq {} was not retransmitted at that instant", r.idx, r.t_us, held.len(), first.wrapping_add(missing as u16), first.wrapping_add(missing as u16));
                            }
                            labels.insert(if ever_recovery || ever_rto { "fast_rtx_sack_checked_later_episode" } else { "fast_rtx_sack_checked" });
                        }
                    }
                    // any duplicate / SACK evidence may start an episode
                    if (obs.st.sack_streak > 0 || obs.st.dup_count > 0) && busy_until.is_none() {
                        busy_until = Some(obs.highest);
                    }
                }
                // canonical pattern: advancing pure ACK followed by identical pure ACKs
                let pure = p.ptype == refparse::ST_STATE && p.last_ext(1).is_none();
                let unacked = obs.unacked_count(&obs.st);
                if pure && obs.st.cum > cum_before && !obs.st.ever_sack && !ever_rto && !ever_recovery && !was_recovery && unacked >= 2 {
                    canon = Some((p.ack, p.wnd, 0, obs.st.cum + 1, r.t_us));
                } else if let Some((a, w, n, k, _t0)) = canon {
                    if pure && p.ack == a && p.wnd == w {
                        let n = n + 1;
                        canon = Some((a, w, n, k, r.t_us));
                        if n == 3 {
                            // the retransmission of k must be emitted at this very instant
                            let ok = res.log.iter().any(|x| x.src == sock && x.t_us == r.t_us && x.idx > r.idx && x.pkt.as_ref().is_some_and(|q| q.ptype == refparse::ST_DATA && obs.rel(q.seq) == k));
                            if !ok && obs.segs.contains_key(&k) {
                                viol!("fast-retransmit-missing", "log #{}: third duplicate of ack_nr {} delivered at t={} us with {} segments outstanding, but seq {} was not retransmitted at that instant", r.idx, a, r.t_us, unacked, first.wrapping_add(k as u16));
                            }
                            labels.insert("fast_rtx_dupack_checked");
                            canon = None;
                        }
                    } else {
                        canon = None;
                    }
                }
                if obs.st.poss_recovery { ever_recovery = true; }
            }
            Ev::Tx(r, p) => {
                if p.conn_id != res.id_to_peer || !handshake_done { continue; }
                let ambiguous = last_rx_t == Some(r.t_us);
                // a retransmission can only be caused by a peer packet or a timer (never by an
                // application call), so "no peer packet at this instant" means timer
                let timer_driven = !ambiguous;
                if p.ptype == refparse::ST_FIN {
                    obs.on_tx_fin(r.t_us, p);
                    if obs.fin_times.len() >= 2 { labels.insert("fin_retransmitted"); }
                    continue;
                }
                if p.ptype != refparse::ST_DATA { continue; }
                if limit_hit_at.is_some() { data_after_limit = true; }
                let (k, kind) = obs.on_tx_data(r.t_us, p);
                t_arm_next = Some(r.t_us);
                let g = obs.segs[&k].clone();
                // (d) bounded number of transmissions
                // a probe that expired is re-cut into a new (shorter) segment under the same number;
                // transmissions are counted per cut
                let same_cut = g.lens.iter().rev().take_while(|l| **l == p.payload.len()).count();
                // (a probe whose size the peer's own payloads have proven by the time it expires is re-cut with the same
                // length: its transmissions as a probe, 1 + mtu_probe_max_retransmissions, precede the count)
                // The probe expires at the first timeout that finds it retransmitted mtu_probe_max_retransmissions times
                // (retransmissions on duplicate-ACK / SACK evidence count too): everything before that is its life as a probe.
                let flags = tx_by_timer.entry(k).or_default();
                flags.push(timer_driven && kind == TxKind::Retransmission);
                let same_len_recut = if g.first_payload.len() > g.mss_at_first && same_cut == g.lens.len() {
                    flags.iter().enumerate().position(|(i, f)| *f && i >= 1 + case.sock.probe_retx as usize).unwrap_or(flags.len())
                } else { 0 };
                let max_tx = max_tx + same_len_recut;
                if same_cut > max_tx {
                    viol!("too-many-transmissions", "log #{}: seq {} ({} bytes) transmitted {} times, the limit is 1 + max_retransmissions = {}", r.idx, p.seq, p.payload.len(), same_cut, max_tx);
                }
                if same_cut == max_tx { limit_hit_at.get_or_insert(r.t_us); labels.insert("max_retx_reached"); }
                if kind == TxKind::Retransmission {
                    // (a) never retransmit the acknowledged (ack delivered at a strictly earlier instant)
                    if let Some(t) = g.cum_acked_at.filter(|t| *t < r.t_us) {
                        viol!("retransmitted-acked", "log #{}: seq {} retransmitted at t={} us although an ack_nr covering it was delivered at t={} us", r.idx, p.seq, r.t_us, t);
                    }
                    if let Some(t) = g.sacked_at.filter(|t| *t < r.t_us) {
                        viol!("retransmitted-sacked", "log #{}: seq {} retransmitted at t={} us although it was selectively acknowledged at t={} us", r.idx, p.seq, r.t_us, t);
                    }
                    // (b) stable content across transmissions (prefix rule for a never-acked probe)
                    let n = g.lens.len();
                    let same = p.payload == g.first_payload;
                    let same_as_prev = n >= 2 && g.lens[n - 1] == g.lens[n - 2];
                    let probe_split = p.payload.len() < g.first_payload.len() && g.first_payload.starts_with(&p.payload) && g.first_payload.len() > g.mss_at_first;
                    let regrown = p.payload.len() > g.first_payload.len() && p.payload.starts_with(&g.first_payload);
                    if !same && !probe_split && !regrown {
                        viol!("content-changed", "log #{}: transmission {} of seq {} carries different bytes than its first transmission ({} vs {} bytes)", r.idx, n, p.seq, p.payload.len(), g.first_payload.len());
                    }
                    if !same { labels.insert("probe_split"); }
                    let is_probe = g.first_payload.len() > g.mss_at_first;
                    let in_recovery = obs.st.poss_recovery || obs.prev.poss_recovery;
                    if timer_driven && same_as_prev {
                        // retransmission by timeout
                        rto_count += 1;
                        ever_rto = true;
                        busy_until = Some(busy_until.map_or(obs.highest, |b| b.max(obs.highest)));
                        canon = None; // an RTO episode is in progress: duplicates are not acted upon
                        let age = r.t_us - g.times[n - 2];
                        // (the single retransmission timer is restarted by acknowledgements; with a peer whose acks name
                        // packets that were never sent, or go backwards, the instant of its last restart cannot be told)
                        if honest && !in_recovery && age + TOL_US < MIN_RTO_US {
                            viol!("rto-too-early", "log #{}: seq {} retransmitted by timer only {} us after its previous transmission (minimum RTO is 200 ms) without duplicate-ACK or SACK evidence", r.idx, p.seq, age);
                        }
                        match &mut chain {
                            Some((ck, ts, clean0)) if *ck == k => {
                                ts.push(r.t_us);
                                max_chain = max_chain.max(ts.len());
                                // while fast recovery may be in progress the first timer-driven
                                // retransmission of a seq can be a recovery retransmission (pipe timer)
                                // rather than a timeout; at most one such precedes the timeouts
                                let skip0 = !*clean0;
                                if ts.len() >= 3 && !is_probe && !(skip0 && ts.len() == 3) {
                                    let g1 = ts[ts.len() - 2] - ts[ts.len() - 3];
                                    let g2 = ts[ts.len() - 1] - ts[ts.len() - 2];
                                    let want = (2 * g1).min(MAX_RTO_US);
                                    if g2.abs_diff(want) > TOL_US + g1 / 500 {
                                        viol!("backoff-not-doubling", "log #{}: successive timeouts of seq {} with nothing delivered in between are spaced {} us then {} us; expected min(2x, 60 s) = {} us", r.idx, p.seq, g1, g2, want);
                                    }
                                    if want == MAX_RTO_US { labels.insert("cap_60s_reached"); }
                                }
                                if ts.len() >= 2 && !is_probe && !(skip0 && ts.len() == 2) {
                                    let g1 = ts[ts.len() - 1] - ts[ts.len() - 2];
                                    if g1 + TOL_US < 2 * MIN_RTO_US || g1 > MAX_RTO_US + TOL_US {
                                        viol!("backoff-out-of-range", "log #{}: second timeout of seq {} came {} us after the first; a doubled RTO lies in [400 ms, 60 s]", r.idx, p.seq, g1);
                                    }
                                }
                            }
                            Some((ck, _, _)) if !in_recovery => {
                                viol!("rto-not-oldest-only", "log #{}: timer retransmission of seq {} while the timeout chain of seq {} is in progress and nothing was delivered in between", r.idx, p.seq, first.wrapping_add(*ck as u16));
                            }
                            _ => chain = Some((k, vec![r.t_us], !in_recovery)),
                        }
                        if in_recovery { labels.insert("rto_during_recovery"); }
                    } else if !timer_driven {
                        if in_recovery { fast_rtx += 1; }
                        // canonical pattern: no retransmission before the third duplicate
                        // (a peer packet may fall on the very instant the retransmission timer expires; the timer is
                        // armed by sends and advancing acks and runs for at least 200 ms)
                        let timer_possible = t_arm_latest.is_some_and(|a| r.t_us >= a + MIN_RTO_US);
                        // … and if it was the timer, everything sent so far is resent as acknowledgements come in
                        // (go-back-N after a timeout): those resends are not fast retransmissions either
                        if timer_possible {
                            gbn_until = Some(gbn_until.map_or(obs.highest, |b: i32| b.max(obs.highest)));
                            busy_until = Some(busy_until.map_or(obs.highest, |b| b.max(obs.highest)));
                        }
                        if let Some((a, _, n, ck, _)) = canon.filter(|_| !timer_possible && !gbn_until.is_some_and(|h| k <= h)) {
                            if n < 3 && ck == k && !ambiguous_is_third(n) {
                                viol!("fast-retransmit-too-early", "log #{}: seq {} retransmitted after only {} duplicate(s) of ack_nr {} and no SACK (three are required)", r.idx, p.seq, n, a);
                            }
                        }
                    }
                    // one segment per RTO: while a timeout chain is in progress no other data
                } else if let Some((ck, _, _)) = &chain {
                    if !obs.st.poss_recovery && !obs.prev.poss_recovery && !ambiguous && !app_times.contains(&r.t_us) {
                        // (a probe that expired is re-cut: usually shorter; with the same length when the peer's own
                        // payloads have meanwhile proven that size — then only the number of its transmissions tells)
                        let probe_expired = obs.segs.get(ck).is_some_and(|g| g.lens.windows(2).any(|w| w[0] != w[1]) || (g.first_payload.len() > g.mss_at_first && g.lens.len() >= case.sock.probe_retx as usize + 2));
                        if !probe_expired {
                            viol!("new-data-during-rto", "log #{}: new data seq {} sent while the timeout chain of seq {} is in progress and nothing was delivered in between", r.idx, p.seq, first.wrapping_add(*ck as u16));
                        }
                    }
                }
                fp.add(((k as u64) << 16) ^ g.lens.len() as u64 ^ if timer_driven { 1 << 40 } else { 0 });
            }
        }
    }
    // (d) once the limit is hit every stream operation fails and no more data is emitted: the
    // connection must be dead by the end if the quiet time after the limit exceeded the backed-off RTO
    if let Some(t) = limit_hit_at {
        let quiet_after = res.t_end_us.saturating_sub(t);
        let rx_after = res.log.iter().any(|x| x.dst == sock && x.t_us > t);
        if !rx_after && quiet_after > MAX_RTO_US + 5_000_000 && res.write_err.is_none() && res.read_err.is_none() {
            viol!("no-failure-after-limit", "seq reached {} transmissions at t={} us, nothing was delivered afterwards for {} us, yet no stream operation reported an error", max_tx, t, quiet_after);
        }
        if res.write_err.is_some() || res.read_err.is_some() { labels.insert("failed_after_limit"); }
        let _ = data_after_limit;
    }
    if max_chain >= 3 { labels.insert("rto_chain_len_ge_3"); }
    if fast_rtx > 0 { labels.insert("fast_rtx"); }
    if obs.st.n_rx > 0 && res.log.iter().any(|x| x.dst == sock && x.pkt.as_ref().is_some_and(|p| crate::model::seq::dist(p.ack, first) < obs.st.cum - 3)) { labels.insert("stale_ack"); }
    let nontrivial = (max_chain >= 2 || fast_rtx >= 1) && sack_processed;
    let _ = (rto_count, BTreeMap::<u8, u8>::new());
    (None, labels.into_iter().collect(), nontrivial, fp.get())
}

fn ambiguous_is_third(_n: u32) -> bool {
    false
}

/// canonical fast-retransmit scenarios: grow the window with prompt acks, leave >= 2 segments
/// outstanding behind an advancing ack, then k duplicates.
fn canon_strategy() -> BoxedStrategy<SpCase> {
    (txgen::tx_sock_cfg(), any::<bool>(), any::<u16>(), any::<u16>(), any::<u64>(), 2usize..7, 2i16..5, 0u8..7, prop_oneof![Just(1u32), Just(5), Just(30)])
        .prop_map(|(mut sock, incoming, peer_isn, conn_id, key, rounds, back, dups, gap)| {
            sock.tx_init = 1 << 20;
            sock.tx_max = 1 << 20;
            let seg = sock.max_payload().max(1) as u32;
            let mut steps = vec![Step::R(crate::sim::app::ROp::ReadToEnd { buf: 4096 }), Step::W(WOp::Write { n: seg * 40, chunk: 1 << 20 })];
            for _ in 0..rounds {
                steps.push(Step::Adv(gap));
                steps.push(Step::Peer(PeerOp::Ack { back: 0, wnd: 4 << 20, sack: None }));
            }
            steps.push(Step::Adv(gap));
            steps.push(Step::Peer(PeerOp::Ack { back, wnd: 4 << 20, sack: None }));
            if dups > 0 {
                steps.push(Step::Peer(PeerOp::DupAck(dups)));
            }
            steps.push(Step::Adv(150));
            SpCase { sock, incoming, peer_isn, conn_id, peer_wnd: 4 << 20, complete_handshake: true, key, steps, linger_ms: 100, discipline: true, bystander: None }
        })
        .boxed()
}

/// two loss episodes with an honest selective-ack peer: the second loss right at / near the point up to
/// which the first episode had to be acknowledged
fn canon2_strategy() -> BoxedStrategy<SpCase> {
    (txgen::tx_sock_cfg(), any::<bool>(), any::<u16>(), any::<u16>(), any::<u64>(), 2usize..6, 0i16..4, 0u8..3, 0u8..3, prop_oneof![Just(1u32), Just(5), Just(30)], 0usize..4)
        .prop_map(|(mut sock, incoming, peer_isn, conn_id, key, rounds, back, skip1, skip2, gap, rounds2)| {
            sock.tx_init = 1 << 20;
            sock.tx_max = 1 << 20;
            let seg = sock.max_payload().max(1) as u32;
            let w = 4u32 << 20;
            let mut steps = vec![Step::R(crate::sim::app::ROp::ReadToEnd { buf: 4096 }), Step::W(WOp::Write { n: seg * 120, chunk: 1 << 20 })];
            for _ in 0..rounds {
                steps.push(Step::Adv(gap));
                steps.push(Step::Peer(PeerOp::Ack { back: 0, wnd: w, sack: None }));
            }
            // episode 1: the oldest outstanding packet is missing, >= 3 later ones are held
            steps.push(Step::Adv(gap));
            steps.push(Step::Peer(PeerOp::SackHeld { adv: 0, skip: skip1, count: 4, wnd: w }));
            steps.push(Step::Adv(gap));
            // everything sent so far arrives: the ack lands on, or `back` short of, the newest packet
            steps.push(Step::Peer(PeerOp::Ack { back, wnd: w, sack: None }));
            for _ in 0..rounds2 {
                steps.push(Step::Adv(gap));
                steps.push(Step::Peer(PeerOp::Ack { back: 0, wnd: w, sack: None }));
            }
            // episode 2
            steps.push(Step::Adv(gap));
            steps.push(Step::Peer(PeerOp::SackHeld { adv: 0, skip: skip2, count: 4, wnd: w }));
            steps.push(Step::Adv(150));
            steps.push(Step::Peer(PeerOp::Ack { back: 0, wnd: w, sack: None }));
            steps.push(Step::Adv(150));
            SpCase { sock, incoming, peer_isn, conn_id, peer_wnd: w, complete_handshake: true, key, steps, linger_ms: 100, discipline: true, bystander: None }
        })
        .boxed()
}

pub struct Sp;
impl CheckDef for Sp {
    type Case = Case;
    const NAME: &'static str = "sp";
    fn strategy(tier: Tier) -> BoxedStrategy<Case> {
        prop_oneof![
            5 => txgen::strategy(TxGen { class: AckClass::Full, max_steps: tier.pick(70, 160), window_games: false, max_write: tier.pick(40_000, 200_000), long_silence: true }),
            1 => txgen::strategy(TxGen { class: AckClass::Cumulative, max_steps: tier.pick(40, 80), window_games: false, max_write: 20_000, long_silence: true }),
            2 => canon_strategy(),
            2 => canon2_strategy(),
        ]
        .prop_map(|mut sp| {
            // large inactivity limits let the back-off reach the 60 s cap
            if sp.key % 3 == 0 { sp.sock.inactivity_ms = 3_600_000; }
            Case { sp }
        })
        .boxed()
    }
    fn run(case: &Case, trace: bool) -> Outcome {
        let res = sp::run(&case.sp, trace);
        if !res.established {
            return Outcome::discard(format!("handshake did not complete: {:?}", res.handshake_err));
        }
        let (v, labels, nontrivial, fp) = oracle(&case.sp, &res);
        if let Some((sig, detail)) = v {
            return Outcome::violation(format!("sp/{sig}"), detail);
        }
        let mut o = Outcome::pass();
        o.labels = labels;
        o.nontrivial = nontrivial;
        o.fingerprint = fp;
        o
    }
}

pub fn run(ctx: &mut Ctx) {
    ctx.rule("SP: the endpoint writes 1..200 segments; the scripted peer produces generated acknowledgement histories (cumulative advances, k identical ACKs, SACK bitmaps of 1/4/8/32 bytes, stale ACKs, ACKs beyond what was sent, silence up to 140 s, peer data) plus canonical fast-retransmit scenarios; max_retransmissions 1..7, inactivity limit 10 s or 1 h. Oracle over the wire log: acked/SACKed seq never retransmitted, stable content, timer retransmissions not before 200 ms, successive timeouts double (400 ms..60 s, +-2 ms), only the oldest segment per timeout, <= 1+max_retransmissions transmissions then failure, third duplicate => retransmission at that instant and not before. non-trivial = (timeout chain >= 2 or fast retransmit) and >= 1 SACK processed; distinct by hash of (seq, transmission count, timer-driven) sequence");
    ctx.assume("an ack injected at the same instant as a retransmission counts as not yet processed");
    ctx.replay_corpus::<Sp>();
    ctx.run_generated::<Sp>(ctx.tier.pick(60_000, 2_000_000));
}

pub fn replay(v: &Value) -> Option<i32> {
    replay_file::<Sp>("C06", v)
}
