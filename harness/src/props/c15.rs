//! C15 — CUBIC congestion window stays sane and reacts to loss (engine COMP).
use std::time::{Duration, Instant};

use librqbit_utp::verif_hooks::{CongestionController, Cubic, RttEstimator};
use proptest::prelude::*;
use serde::{Deserialize, Serialize};
use serde_json::Value;

use crate::engine::*;

#[derive(Clone, Debug, Serialize, Deserialize)]
pub enum Op {
    /// advance the clock by dt µs, then on_ack(now, len)
    Ack { dt_us: u64, len: u32 },
    Rto,
    EnterRecovery,
    Recovered { cwnd: u32, ssthresh: u32 },
    /// MSS grows by `inc` (SegmentSizes::mss() is monotonically non-decreasing), then the
    /// peer window is re-applied — the order used for every incoming packet
    SetMss { inc: u16 },
    /// MSS grows, peer window NOT re-applied yet (the ST_DATA branch of packet processing)
    SetMssOnly { inc: u16 },
    SetRwnd(u32),
    /// the peer window dips, the MSS is raised while it is low, the peer window re-opens
    MssDip { low: u32, inc: u16, high: u32 },
    RttSample(u64),
}

#[derive(Clone, Debug, Serialize, Deserialize)]
pub struct Case {
    pub mss0: u16,
    pub rwnd0: u32,
    pub ops: Vec<Op>,
}

fn dt_us() -> impl Strategy<Value = u64> {
    prop_oneof![
        2 => Just(0u64),
        6 => (0u32..34, any::<u64>()).prop_map(|(b, m)| if b == 0 { 0 } else { m & ((1u64 << b) - 1) }), // up to ~4.7 h
        2 => 1_000u64..300_000,
    ]
}
fn len() -> impl Strategy<Value = u32> {
    prop_oneof![
        1 => Just(0u32),
        1 => Just(1u32),
        6 => 1u32..20_000,
        1 => any::<u32>(),
    ]
}
fn win() -> impl Strategy<Value = u32> {
    prop_oneof![
        1 => Just(0u32),
        1 => 1u32..3000,
        5 => 1000u32..2_000_000,
        1 => Just(u32::MAX),
        1 => any::<u32>(),
    ]
}
fn rtt_ns() -> impl Strategy<Value = u64> {
    prop_oneof![
        1 => Just(0u64),
        1 => Just(1u64),
        5 => 100_000u64..500_000_000,
        1 => (0u32..44, any::<u64>()).prop_map(|(b, m)| if b == 0 { 0 } else { m & ((1u64 << b) - 1) }),
    ]
}

pub struct Comp;
impl CheckDef for Comp {
    type Case = Case;
    const NAME: &'static str = "comp";
    fn strategy(tier: Tier) -> BoxedStrategy<Case> {
        let max = tier.pick(80, 200);
        let op = prop_oneof![
            10 => (dt_us(), len()).prop_map(|(dt_us, len)| Op::Ack { dt_us, len }),
            1 => Just(Op::Rto),
            1 => Just(Op::EnterRecovery),
            1 => (win(), win()).prop_map(|(cwnd, ssthresh)| Op::Recovered { cwnd, ssthresh }),
            1 => prop_oneof![Just(0u16), 1u16..2000, 1u16..9000].prop_map(|inc| Op::SetMss { inc }),
            1 => prop_oneof![1u16..2000].prop_map(|inc| Op::SetMssOnly { inc }),
            2 => win().prop_map(Op::SetRwnd),
            1 => (prop_oneof![Just(0u32), 1u32..3000, win()], 1u16..2000, win()).prop_map(|(low, inc, high)| Op::MssDip { low, inc, high }),
            1 => rtt_ns().prop_map(Op::RttSample),
        ];
        (
            prop_oneof![Just(1u16), Just(528), Just(1232), Just(1452), 1u16..9000],
            win(),
            prop::collection::vec(op, 1..max),
        )
            .prop_map(|(mss0, rwnd0, ops)| Case { mss0, rwnd0, ops })
            .boxed()
    }

    fn run(case: &Case, trace: bool) -> Outcome {
        let base = Instant::now(); // opaque origin; only differences are used
        let mut now = base;
        let mut mss = case.mss0.max(1) as usize;
        let mut c = Cubic::new(now, mss);
        c.set_remote_window(case.rwnd0 as usize);
        let mut win_bytes = case.rwnd0 as f64; // peer window as last applied (bytes)
        let mut win_mss = mss; // MSS current when it was applied
        let mut rtte = RttEstimator::default();
        let tol = |x: f64| 2.0 + x.abs() * 1e-9;
        let mut out = Outcome::pass();
        let mut fp = Fp::default();
        let (mut acks, mut losses, mut mss_changes) = (0u32, 0u32, 0u32);
        let mut lab = std::collections::BTreeSet::new();

        macro_rules! bounds {
            ($i:expr, $what:expr) => {{
                let w = c.window() as f64;
                // upper bound: peer window as last applied, expressed in today's MSS
                let upper = win_bytes / win_mss as f64 * mss as f64;
                let lower = (2.0 * mss as f64).min(upper);
                if !(w <= upper + tol(upper)) {
                    return Outcome::violation("window-above-peer-window", format!("step {} ({}): window {} exceeds the peer window {} (applied as {} B at mss {}, mss now {})", $i, $what, w, upper, win_bytes, win_mss, mss));
                }
                if !(w >= lower - tol(lower)) {
                    return Outcome::violation("window-below-two-segments", format!("step {} ({}): window {} below min(2*mss={}, peer window {})", $i, $what, w, 2 * mss, upper));
                }
            }};
        }
        bounds!(0, "initial");

        let ops: Vec<Op> = case.ops.iter().flat_map(|op| match op {
            Op::MssDip { low, inc, high } => vec![Op::SetRwnd(*low), Op::SetMssOnly { inc: *inc }, Op::SetRwnd(*high)],
            o => vec![o.clone()],
        }).collect();
        // metamorphic twin for the MSS clause: a copy taken just before an MSS change that sees the same peer-window
        // updates but keeps the old MSS. Once a peer window is re-applied both must hold the same bytes (each above its
        // own two-segment floor, below the peer window). Dropped at the next event that legitimately moves the window.
        let mut twin: Option<(Cubic, usize)> = None;
        for (i, op) in ops.iter().enumerate() {
            let w_before = c.window() as f64;
            let ss_before = c.sshthresh() as f64;
            let upper_before = win_bytes / win_mss as f64 * mss as f64;
            match *op {
                Op::Ack { dt_us, len } => {
                    now += Duration::from_micros(dt_us);
                    c.on_ack(now, len as usize, &rtte);
                    acks += 1;
                    let w = c.window() as f64;
                    if len == 0 { lab.insert("zero_len_ack"); }
                    if dt_us > 3_600_000_000 { lab.insert("huge_dt"); }
                    if w_before < ss_before {
                        lab.insert("ss_ack");
                        if w > w_before + len as f64 + tol(w_before) {
                            return Outcome::violation("slow-start-growth", format!("step {i}: in slow start (window {w_before} < ssthresh {ss_before}) one ack of {len} B grew the window to {w} (by {})", w - w_before));
                        }
                    } else {
                        lab.insert("ca_ack");
                        if rtte.roundtrip_time().is_zero() { lab.insert("zero_rtt"); }
                    }
                }
                Op::Rto | Op::EnterRecovery => {
                    if matches!(op, Op::Rto) {
                        c.on_retransmission_timeout(now);
                        lab.insert("loss_rto");
                    } else {
                        c.on_enter_recovery(now);
                        lab.insert("loss_recovery");
                    }
                    losses += 1;
                    let w = c.window() as f64;
                    let ss = c.sshthresh() as f64;
                    if w > w_before + tol(w_before) {
                        return Outcome::violation("loss-increased-window", format!("step {i} ({op:?}): window rose from {w_before} to {w}"));
                    }
                    let expect = (0.7 * w_before).max(2.0 * mss as f64);
                    if ss < expect - tol(expect) - 1.0 {
                        return Outcome::violation("ssthresh-too-low", format!("step {i} ({op:?}): ssthresh {ss} < max(0.7*{w_before}, 2*{mss}) = {expect}"));
                    }
                    // equality when the previous window was not clamped by the peer window
                    if w_before < upper_before - tol(upper_before) - mss as f64 && ss > expect + tol(expect) + 1.0 {
                        return Outcome::violation("ssthresh-too-high", format!("step {i} ({op:?}): ssthresh {ss} > max(0.7*{w_before}, 2*{mss}) = {expect} although the window was not limited by the peer window ({upper_before})"));
                    }
                }
                Op::Recovered { cwnd, ssthresh } => {
                    c.on_recovered(cwnd as usize, ssthresh as usize);
                }
                Op::SetMss { inc } | Op::SetMssOnly { inc } => {
                    let new_mss = (mss + inc as usize).min(65_000);
                    let reapply = matches!(op, Op::SetMss { .. });
                    // only meaningful as a rescale check when the peer window was valid
                    let valid_before = win_mss == mss;
                    if new_mss != mss && twin.is_none() { twin = Some((c, mss)); }
                    c.set_mss(new_mss);
                    if new_mss != mss { mss_changes += 1; lab.insert("mss_change"); }
                    mss = new_mss;
                    if reapply {
                        c.set_remote_window(win_bytes as usize);
                        if let Some((t, _)) = twin.as_mut() { t.set_remote_window(win_bytes as usize); }
                        win_mss = mss;
                        if valid_before {
                            let w = c.window() as f64;
                            let expect = w_before.max(2.0 * mss as f64).min(win_bytes);
                            if (w - expect).abs() > tol(expect) + 1.0 {
                                return Outcome::violation("mss-change-not-rescaled", format!("step {i}: window was {w_before} B, MSS changed to {mss}, peer window {win_bytes} re-applied: window is {w}, expected max({w_before}, 2*{mss}) capped by the peer window = {expect}"));
                            }
                        }
                    }
                }
                Op::MssDip { .. } => unreachable!(),
                Op::SetRwnd(w) => {
                    c.set_remote_window(w as usize);
                    if let Some((t, _)) = twin.as_mut() { t.set_remote_window(w as usize); }
                    win_bytes = w as f64;
                    win_mss = mss;
                    if w == 0 { lab.insert("rwnd_zero"); }
                    else if (w as usize) < 2 * mss { lab.insert("rwnd_lt_2mss"); }
                }
                Op::RttSample(ns) => {
                    rtte.sample(Duration::from_nanos(ns));
                }
            }
            match *op {
                Op::SetRwnd(_) | Op::SetMss { .. } => {
                    if let Some((t, t_mss)) = &twin {
                        if *t_mss != mss && win_mss == mss {
                            let tw = t.window() as f64;
                            let expect = tw.max(2.0 * mss as f64).min(win_bytes);
                            let w = c.window() as f64;
                            lab.insert("mss_twin_compared");
                            if tw > 2.0 * *t_mss as f64 + 2.0 && tw < win_bytes - 2.0 { lab.insert("mss_twin_unclamped"); }
                            if (w - expect).abs() > tol(expect) + 2.0 {
                                return Outcome::violation("mss-change-lost-window", format!("step {i} ({op:?}): the MSS went from {t_mss} to {mss} and the peer window {win_bytes} was applied afterwards: window is {w} B, but a copy of the controller that kept MSS {t_mss} and saw the same peer-window updates holds {tw} B (expected {expect}): the MSS change did not keep the window's bytes"));
                            }
                        }
                    }
                }
                Op::SetMssOnly { .. } | Op::RttSample(_) => {}
                _ => twin = None,
            }
            bounds!(i, format!("{op:?}"));
            if trace {
                println!("#{i} {op:?} -> window={} ssthresh={} (mss {mss}, peer window {win_bytes}@{win_mss})", c.window(), c.sshthresh());
            }
            fp.add(match op { Op::Ack { .. } => 1, Op::Rto => 2, Op::EnterRecovery => 3, Op::Recovered { .. } => 4, Op::SetMss { .. } => 5, Op::SetMssOnly { .. } => 6, Op::SetRwnd(_) => 7, Op::RttSample(_) => 8, Op::MssDip { .. } => 9 });
            fp.add((c.window() / mss.max(1)) as u64);
        }
        out.nontrivial = losses >= 1 && mss_changes >= 1 && acks >= 5 && c.window() > 2 * mss;
        out.fingerprint = fp.get();
        out.labels = lab.into_iter().collect();
        out
    }
}

pub fn run(ctx: &mut Ctx) {
    ctx.rule("COMP: event sequences over Cubic via the CongestionController trait (on_ack with dt 0..hours, RTO, recovery entry/exit, MSS growth, peer-window updates incl. 0/tiny/2^32-1, RTT states 0 ns..hours; incl. a dip op: window lowered, MSS raised, window re-opened); oracle = stated inequalities after every step + a metamorphic twin for the MSS clause (a copy taken before an MSS change that keeps the old MSS and sees the same peer-window updates holds the same window bytes once a peer window is re-applied); non-trivial = >=1 loss event, >=1 MSS change, >=5 acks, final window > 2*mss; distinct by hash of (op kind, window in segments) sequence");
    ctx.assume("MSS values are >= 1 and non-decreasing (SegmentSizes::mss() only grows)");
    ctx.assume("tolerance 2 B + 1e-9 relative for f64->usize conversions");
    ctx.replay_corpus::<Comp>();
    ctx.run_generated::<Comp>(ctx.tier.pick(60_000, 5_000_000));
    ctx.check_floors("comp", &[
        Floor { label: "zero_rtt", min_count: 20 },
        Floor { label: "zero_len_ack", min_count: 50 },
        Floor { label: "rwnd_zero", min_count: 50 },
        Floor { label: "rwnd_lt_2mss", min_count: 50 },
        Floor { label: "ca_ack", min_count: 50 },
        Floor { label: "ss_ack", min_count: 50 },
        Floor { label: "mss_twin_unclamped", min_count: 50 },
    ]);
}

pub fn replay(v: &Value) -> Option<i32> {
    replay_file::<Comp>("C15", v)
}
