//! C01 — Byte-stream integrity: in-order, exactly-once, unaltered delivery.
//! E2E: two real sockets over an adversarial simulated network; COMP: `Segments` and
//! `UserRx`/`OutOfOrderQueue` against list models (c01_comp.rs).
use proptest::prelude::*;
use serde::{Deserialize, Serialize};
use serde_json::Value;

use crate::engine::*;
use crate::model::{bytestream, refparse};
use crate::props::gens::{self, CfgRange};
use crate::sim::{
    Disposition, Family, Net, WireRec,
    app::Stream,
    e2e::{self, ConnPlan, RunResult, Scenario},
};

pub const F7_SIG: &str = "C01/probe-reseg-after-lost-ack";

#[derive(Clone, Debug, Serialize, Deserialize)]
pub struct Case {
    pub sc: Scenario,
    /// witnesses of known findings run without the finding's guard
    #[serde(default)]
    pub no_guard: bool,
}

pub fn scenario_strategy(max_total: u32, max_fates: usize) -> BoxedStrategy<Scenario> {
    any::<bool>()
        .prop_flat_map(move |v6| {
            let v6 = v6 && false || v6; // both families
            (
                gens::sock_cfg(v6, CfgRange { min_rx_segments: 2, small_buffers: true }),
                gens::sock_cfg(v6, CfgRange { min_rx_segments: 2, small_buffers: true }),
                gens::writer_script(max_total, gens::writer_end_any()),
                gens::reader_script(true),
                gens::writer_script(max_total, gens::writer_end_any()),
                gens::reader_script(true),
                gens::net_adversarial(max_fates),
                any::<u64>(),
                // path MTU blackhole (fraction of the way from minimum to link) and EMSGSIZE
                (prop::option::weighted(0.35, 0u16..=1000), prop::option::weighted(0.35, 0u16..=1000), prop::option::weighted(0.2, 0u16..=1000), prop::option::weighted(0.2, 0u16..=1000)),
            )
        })
        .prop_map(|(mut s0, mut s1, a_w, a_r, b_w, b_r, mut net, key, (pm0, pm1, em0, em1))| {
            let ipudp = s0.ip_udp();
            let frac = |lo: usize, hi: usize, f: u16| (lo + (hi.saturating_sub(lo)) * f as usize / 1000) as u16;
            // path MTU in IP-datagram bytes between the protocol minimum and the link MTU
            let lo0 = s0.min_payload() + 20 + ipudp;
            let lo1 = s1.min_payload() + 20 + ipudp;
            net.path_mtu = (pm0.map(|f| frac(lo0, s0.link_mtu as usize, f)), pm1.map(|f| frac(lo1, s1.link_mtu as usize, f)));
            s0.emsgsize_above = em0.map(|f| frac(s0.min_payload() + 20, s0.max_datagram(), f));
            s1.emsgsize_above = em1.map(|f| frac(s1.min_payload() + 20, s1.max_datagram(), f));
            Scenario {
                socks: vec![s0, s1],
                conns: vec![ConnPlan { from: 0, to: 1, start_ms: 0, key, a_w, a_r, b_w, b_r }],
                net,
                events: vec![],
                deadline_ms: 180_000,
                linger_ms: 0,
            }
        })
        .boxed()
}

/// Guard for known finding F7: a datagram travelling towards a sender that has an oversize
/// segment outstanding which was already delivered must not be dropped / delayed, and a
/// potential probe must not be delayed or duplicated late.
pub fn install_f7_guard(net: &Net) {
    if !findings().guard_active(F7_SIG) {
        return;
    }
    // incremental state over the log
    #[derive(Default)]
    struct Dir {
        max_len: usize,
        /// potential probes: (seq, delivered)
        probes: Vec<(u16, bool)>,
    }
    let mut cursor = 0usize;
    let mut dirs: std::collections::BTreeMap<(std::net::SocketAddr, std::net::SocketAddr, u16), Dir> = Default::default();
    let mut acked: std::collections::BTreeMap<(std::net::SocketAddr, std::net::SocketAddr), Vec<u16>> = Default::default();
    net.set_protect(move |rec: &WireRec, log: &[WireRec]| {
        let mut ingest = |r: &WireRec, decided: bool| -> bool {
            // returns true if `r` is a potential probe
            let Some(p) = &r.pkt else { return false };
            let mut is_probe = false;
            if p.ptype == refparse::ST_DATA {
                let d = dirs.entry((r.src, r.dst, p.conn_id)).or_default();
                if p.payload.len() > d.max_len {
                    let first = d.max_len == 0;
                    d.max_len = p.payload.len();
                    if !first {
                        is_probe = true;
                        if decided {
                            d.probes.push((p.seq, r.delivered()));
                        }
                    }
                } else if let Some(pr) = d.probes.iter_mut().find(|x| x.0 == p.seq) {
                    is_probe = true;
                    if decided && r.delivered() {
                        pr.1 = true;
                    }
                }
            }
            if decided && r.delivered() && p.ptype != refparse::ST_SYN {
                // acks carried by r (towards r.dst)
                acked.entry((r.src, r.dst)).or_default().push(p.ack);
            }
            is_probe
        };
        while cursor < log.len() {
            ingest(&log[cursor], true);
            cursor += 1;
        }
        // (1) the datagram itself is a potential probe: never delay/duplicate it
        let Some(p) = &rec.pkt else { return false };
        if p.ptype == refparse::ST_DATA {
            let d = dirs.get(&(rec.src, rec.dst, p.conn_id));
            let max = d.map(|d| d.max_len).unwrap_or(0);
            if max > 0 && (p.payload.len() > max || d.is_some_and(|d| d.probes.iter().any(|x| x.0 == p.seq))) {
                return true;
            }
        }
        // (2) it travels towards a sender with a delivered, not yet acknowledged probe
        for ((src, dst, _), d) in dirs.iter() {
            if *src == rec.dst && *dst == rec.src {
                for (seq, delivered) in &d.probes {
                    if *delivered {
                        let covered = acked.get(&(rec.src, rec.dst)).is_some_and(|v| v.iter().any(|a| crate::model::seq::dist(*a, *seq) >= 0));
                        if !covered {
                            return true;
                        }
                    }
                }
            }
        }
        false
    });
}

/// Does the log show F7's signature for data flowing src -> dst: a delivered transmission of
/// seq s with L1 bytes followed by a transmission of s with a different number of bytes?
pub fn f7_signature(log: &[WireRec], src: std::net::SocketAddr, dst: std::net::SocketAddr) -> Option<String> {
    let mut delivered_len: std::collections::BTreeMap<(u16, u16), usize> = Default::default();
    for r in log {
        if r.src != src || r.dst != dst || !r.from_stack {
            continue;
        }
        let Some(p) = &r.pkt else { continue };
        if p.ptype != refparse::ST_DATA {
            continue;
        }
        if let Some(l1) = delivered_len.get(&(p.conn_id, p.seq)) {
            if p.payload.len() != *l1 {
                return Some(format!("seq {} was delivered with {} bytes and later re-cut to {} bytes (log #{})", p.seq, l1, p.payload.len(), r.idx));
            }
        }
        if matches!(r.disp, Disposition::Deliver(_)) {
            let e = delivered_len.entry((p.conn_id, p.seq)).or_insert(0);
            *e = (*e).max(p.payload.len());
        }
    }
    None
}

pub fn integrity_oracle(sc: &Scenario, res: &RunResult) -> Option<(String, String)> {
    for (ci, plan) in sc.conns.iter().enumerate() {
        let c = &res.conns[ci];
        let (a, b) = (res.addrs[plan.from], res.addrs[plan.to]);
        for side in 0..2 {
            let ep = &c.ep[side];
            let peer = &c.ep[1 - side];
            let (src, dst) = if side == 0 { (b, a) } else { (a, b) }; // data read by `side` flows src -> dst
            if let Some(at) = ep.first_bad_read_at {
                let sig = match f7_signature(&res.log, src, dst) {
                    Some(_) => F7_SIG.to_string(),
                    None => "e2e/read-deviates".to_string(),
                };
                let extra = f7_signature(&res.log, src, dst).unwrap_or_default();
                return Some((sig, format!("conn {ci}: bytes read by the {} deviate from what the peer wrote at stream offset {at} (read {} bytes, peer wrote {}) {extra}", if side == 0 { "connector" } else { "acceptor" }, ep.read, peer.written)));
            }
            if ep.read > peer.written {
                return Some(("e2e/read-beyond-written".into(), format!("conn {ci} side {side}: read {} bytes but the peer only wrote {}", ep.read, peer.written)));
            }
        }
        // wire-content oracle, both directions
        let ids = bytestream::syn_ids(&res.log, a, b);
        if let Some(cid) = ids.get(ci).or(ids.first()) {
            if sc.conns.len() == 1 {
                for (src, dst, id, stream) in [(a, b, cid.wrapping_add(1), Stream::new(plan.key, 0)), (b, a, *cid, Stream::new(plan.key, 1))] {
                    let rep = bytestream::check_direction(&res.log, src, dst, id, stream);
                    if let Some((idx, seq, why)) = rep.bad {
                        return Some(("e2e/wire-content".into(), format!("conn {ci} {src}->{dst} log #{idx} seq {seq}: {why}")));
                    }
                }
            }
        }
    }
    None
}

pub fn common_labels(sc: &Scenario, res: &RunResult, out: &mut Outcome) {
    let mut sack3 = false;
    let mut zero_wnd = false;
    let mut blackholed = false;
    let mut emsg = false;
    let mut dropped_data = false;
    let mut delayed = false;
    let mut retrans = false;
    let mut seen: std::collections::BTreeSet<(std::net::SocketAddr, u16, u16)> = Default::default();
    for r in &res.log {
        if let Some(p) = &r.pkt {
            if p.sack_bits().iter().filter(|b| **b).count() >= 3 { sack3 = true; }
            if p.wnd == 0 && p.ptype != refparse::ST_SYN && p.ptype != refparse::ST_RESET { zero_wnd = true; }
            if p.ptype == refparse::ST_DATA {
                if !seen.insert((r.src, p.conn_id, p.seq)) { retrans = true; }
                if matches!(r.disp, Disposition::Dropped("plan")) { dropped_data = true; }
                if matches!(r.disp, Disposition::Dropped("blackhole")) { blackholed = true; }
                if let Disposition::Deliver(v) = &r.disp { if v.len() > 1 { delayed = true; } }
            }
        }
        if matches!(r.disp, Disposition::Emsgsize) { emsg = true; }
    }
    if sack3 { out.labels.push("recovery_sack3_seen"); }
    if zero_wnd { out.labels.push("zero_window_seen"); }
    if blackholed { out.labels.push("blackhole_probe_failed"); }
    if emsg { out.labels.push("emsgsize"); }
    if retrans { out.labels.push("retransmission_seen"); }
    if dropped_data { out.labels.push("data_dropped"); }
    if delayed { out.labels.push("dup_delivered"); }
    if res.conns.iter().all(|c| c.ep[0].written > 0 && c.ep[1].written > 0) { out.labels.push("bidirectional"); }
    if sc.socks.iter().any(|s| s.v6) { out.labels.push("ipv6"); }
    if sc.socks.iter().any(|s| s.rnd.iter().take(3).any(|x| *x > 65000)) { out.labels.push("isn_near_wrap"); }
    if sc.socks.iter().any(|s| s.tx_max > s.tx_init && s.tx_init < 20_000) { out.labels.push("tx_ring_can_grow"); }
    if res.wedge { out.labels.push("wedge"); }
}

pub struct E2e;
impl CheckDef for E2e {
    type Case = Case;
    const NAME: &'static str = "e2e";
    fn strategy(tier: Tier) -> BoxedStrategy<Case> {
        scenario_strategy(tier.pick(120_000, 300_000), tier.pick(600, 2500)).prop_map(|sc| Case { sc, no_guard: false }).boxed()
    }
    fn run(case: &Case, trace: bool) -> Outcome {
        let res = e2e::run_with(&case.sc, trace, |net| if !case.no_guard { install_f7_guard(net) });
        let mut out = Outcome::pass();
        out.excluded_by_known_finding = res.excluded;
        if let Some((sig, detail)) = integrity_oracle(&case.sc, &res) {
            return Outcome { verdict: Verdict::Violation { signature: sig, detail }, ..out };
        }
        common_labels(&case.sc, &res, &mut out);
        let read_far: u64 = res.conns.iter().map(|c| c.ep[0].read.max(c.ep[1].read)).max().unwrap_or(0);
        let faulted = res.log.iter().any(|r| r.pkt.as_ref().is_some_and(|p| p.ptype == refparse::ST_DATA) && (matches!(r.disp, Disposition::Dropped(_)) || matches!(&r.disp, Disposition::Deliver(v) if v.len() > 1 || v.first().is_some_and(|d| *d > r.t_us + 1000 * case.sc.net.lat_ms.0.max(case.sc.net.lat_ms.1) as u64))));
        out.nontrivial = faulted && read_far >= 2048;
        let mut fp = Fp::default();
        for r in &res.log {
            if let Some(p) = &r.pkt {
                fp.add(((p.ptype as u64) << 32) | ((r.src.port() as u64) << 16) | p.payload.len() as u64);
                fp.add(match &r.disp { Disposition::Deliver(v) => v.len() as u64, Disposition::Dropped(_) => 7, Disposition::Emsgsize => 9 });
            }
        }
        out.fingerprint = fp.get();
        out.stats.push(("max_virtual_time_ms", res.t_end_us / 1000));
        out.stats.push(("max_datagrams", res.log.len() as u64));
        let _ = Family::Adversarial;
        out
    }
}

pub fn run(ctx: &mut Ctx) {
    ctx.rule("E2E: two real sockets over the simulated network (adversarial fault plan: loss 2-30 %, duplicates, delays up to 3 s, path-MTU blackhole, EMSGSIZE, total cut), both directions transfer keyed position-dependent payloads with generated write/read chunking and pauses (a quarter of the readers fill one buffer over several reads, passing a partly filled ReadBuf; one writer chunk size in eight abandons a blocked write after 25 ms and retries with a fresh waker), generated MTU/buffer/Nagle/ISN configurations; oracle = reader-side prefix relation on every read + wire-content oracle on every ST_DATA. non-trivial = >=1 data datagram dropped/duplicated/delayed and >=2 KB read at the far end; distinct by hash of the (type, size, fate) sequence of the wire log");
    ctx.assume("tokio paused clock + single-threaded scheduling; simulated network model (sim::Net)");
    ctx.replay_corpus::<E2e>();
    ctx.run_generated::<E2e>(ctx.tier.pick(30_000, 2_000_000));
    crate::props::c01_comp::run(ctx);
}

pub fn replay(v: &Value) -> Option<i32> {
    replay_file::<E2e>("C01", v).or_else(|| crate::props::c01_comp::replay(v))
}
