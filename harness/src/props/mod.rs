//! One module per property. Each exposes `run(&mut Ctx)` and `replay(&Value) -> Option<i32>`.
pub mod gens;
pub mod c01;
pub mod c01_comp;
pub mod c02;
pub mod c03;
pub mod c03b;
pub mod c04;
pub mod rxgen;
pub mod c05;
pub mod txgen;
pub mod c06;
pub mod c07;
pub mod c17;
pub mod c18;
pub mod c19;
pub mod c19t;
pub mod c08;
pub mod c09;
pub mod c09b;
pub mod c10;
pub mod c11;
pub mod c11_emit;
pub mod c12;
pub mod c13;
pub mod c14;
pub mod c15;
pub mod c16;

use crate::engine::{Ctx, Tier};
use serde_json::Value;

pub const ALL: &[&str] = &["C01", "C02", "C03", "C04", "C05", "C06", "C07", "C08", "C09", "C10", "C11", "C12", "C13", "C14", "C15", "C16", "C17", "C18", "C19"];

pub fn run(id: &str, tier: Tier, seed: u64) -> Option<i32> {
    macro_rules! go {
        ($m:ident, $idstr:expr) => {{
            let mut ctx = Ctx::new($idstr, tier, seed);
            $m::run(&mut ctx);
            Some(ctx.finish())
        }};
    }
    match id {
        "C01" => go!(c01, "C01"),
        "C02" => go!(c02, "C02"),
        "C03" => go!(c03, "C03"),
        "C04" => go!(c04, "C04"),
        "C05" => go!(c05, "C05"),
        "C06" => go!(c06, "C06"),
        "C07" => go!(c07, "C07"),
        "C08" => go!(c08, "C08"),
        "C09" => go!(c09, "C09"),
        "C10" => go!(c10, "C10"),
        "C11" => go!(c11, "C11"),
        "C12" => go!(c12, "C12"),
        "C13" => go!(c13, "C13"),
        "C14" => go!(c14, "C14"),
        "C15" => go!(c15, "C15"),
        "C16" => go!(c16, "C16"),
        "C17" => go!(c17, "C17"),
        "C18" => go!(c18, "C18"),
        "C19" => go!(c19, "C19"),
        _ => None,
    }
}

pub fn replay(id: &str, v: &Value) -> Option<i32> {
    match id {
        "C01" => c01::replay(v),
        "C02" => c02::replay(v),
        "C03" => c03::replay(v),
        "C04" => c04::replay(v),
        "C05" => c05::replay(v),
        "C06" => c06::replay(v),
        "C07" => c07::replay(v),
        "C08" => c08::replay(v),
        "C09" => c09::replay(v),
        "C10" => c10::replay(v),
        "C11" => c11::replay(v),
        "C12" => c12::replay(v),
        "C13" => c13::replay(v),
        "C14" => c14::replay(v),
        "C15" => c15::replay(v),
        "C16" => c16::replay(v),
        "C17" => c17::replay(v),
        "C18" => c18::replay(v),
        "C19" => c19::replay(v),
        _ => None,
    }
}
