//! C11 — Wire format: total parser, lossless round-trip, well-formed output (engine COMP).
//! Clause (c) (every emitted datagram is well formed) is the global wire oracle of `sim::Net`
//! and is exercised by the dedicated `emit` sub-check in c11_emit.rs.
use librqbit_utp::raw::{
    Extensions, Type, UtpHeader, ext_close_reason::LibTorrentCloseReason,
    selective_ack::SelectiveAck,
};
use librqbit_utp::verif_hooks::UtpMessage;
use proptest::prelude::*;
use serde::{Deserialize, Serialize};
use serde_json::{Value, json};

use crate::engine::*;
use crate::model::refparse::{self, RefPacket, RefReject};

fn type_num(t: Type) -> u8 {
    match t {
        Type::ST_DATA => 0,
        Type::ST_FIN => 1,
        Type::ST_STATE => 2,
        Type::ST_RESET => 3,
        Type::ST_SYN => 4,
    }
}
fn type_from(n: u8) -> Type {
    match n {
        0 => Type::ST_DATA,
        1 => Type::ST_FIN,
        2 => Type::ST_STATE,
        3 => Type::ST_RESET,
        _ => Type::ST_SYN,
    }
}

/// Compare the crate's view of `buf` with the reference parser's. Returns (violation, labels).
pub fn differential(buf: &[u8]) -> (Option<(&'static str, String)>, Vec<&'static str>, bool) {
    let mut labels = vec![];
    let r = refparse::parse_header(buf);
    let c = UtpHeader::deserialize(buf);
    let nontrivial;
    match (&r, &c) {
        (Err(e), None) => {
            nontrivial = matches!(e, RefReject::ChainOverrun);
            match e {
                RefReject::ChainOverrun => labels.push("chain_overrun"),
                RefReject::BadVersion(_) => labels.push("version_ne_1"),
                RefReject::BadType(_) => labels.push("type_ge_5"),
                _ => {}
            }
        }
        (Err(e), Some((h, n))) => {
            return (Some(("accepts-invalid", format!("crate accepts a datagram the BEP-29 reference rejects ({e:?}): parsed {h:?} len {n}; bytes {buf:02x?}"))), labels, true);
        }
        (Ok(p), None) => {
            return (Some(("rejects-valid", format!("crate rejects a valid version-1 packet: reference parses {p:?}; bytes {buf:02x?}"))), labels, true);
        }
        (Ok(p), Some((h, n))) => {
            nontrivial = true;
            if *n != p.header_len() {
                return (Some(("payload-boundary", format!("header length {n} != reference {} (payload boundary shifted); exts {:?}; bytes {buf:02x?}", p.header_len(), p.exts))), labels, true);
            }
            let fixed_ok = type_num(h.htype) == p.ptype
                && h.connection_id.0 == p.conn_id
                && h.timestamp_microseconds == p.ts
                && h.timestamp_difference_microseconds == p.ts_diff
                && h.wnd_size == p.wnd
                && h.seq_nr.0 == p.seq
                && h.ack_nr.0 == p.ack;
            if !fixed_ok {
                return (Some(("fixed-fields", format!("fixed header fields differ: crate {h:?} vs reference {p:?}"))), labels, true);
            }
            // SACK: the last SACK extension in the chain; first 8 bytes kept, length recorded
            match (p.last_ext(1), h.extensions.selective_ack) {
                (None, None) => {}
                (Some(d), Some(s)) => {
                    let mut want = [0u8; 8];
                    let k = d.len().min(8);
                    want[..k].copy_from_slice(&d[..k]);
                    if s.as_bytes() != want || s.len() != d.len() * 8 {
                        return (Some(("sack-bytes", format!("SACK parsed as {:02x?} len {} but the wire has {:02x?}", s.as_bytes(), s.len(), d))), labels, true);
                    }
                    if d.len() != 8 { labels.push("sack_len_not_8"); }
                }
                (a, b) => {
                    return (Some(("sack-presence", format!("SACK presence differs: wire {a:?} crate {b:?}"))), labels, true);
                }
            }
            // close reason: honoured only when its length is 4
            let want_cr = p.exts.iter().rev().find(|(i, d)| *i == 3 && d.len() == 4).map(|(_, d)| u32::from_be_bytes([d[0], d[1], d[2], d[3]]) as u16);
            if h.extensions.close_reason.map(|c| c.0) != want_cr {
                return (Some(("close-reason", format!("close reason parsed as {:?}, wire says {:?}", h.extensions.close_reason, want_cr))), labels, true);
            }
            if p.exts.iter().any(|(i, d)| !(*i == 1 || (*i == 3 && d.len() == 4))) { labels.push("unknown_ext_skipped"); }
            if p.exts.len() >= 2 { labels.push("chain_ge_2"); }
        }
    }
    // message level: payload present exactly for data packets
    let rm = refparse::parse_message(buf);
    let cm = UtpMessage::deserialize(buf);
    match (&rm, &cm) {
        (Ok(p), Some(m)) => {
            if m.data != p.payload {
                return (Some(("payload-bytes", format!("payload differs: crate {} bytes, reference {} bytes", m.data.len(), p.payload.len()))), labels, true);
            }
            if Some((m.header, p.header_len())) != c {
                return (Some(("message-header", "UtpMessage header differs from UtpHeader::deserialize".to_string())), labels, true);
            }
        }
        (Err(RefReject::PayloadRule), None) => {
            if let Ok(p) = &r {
                labels.push(if p.ptype == 0 { "zero_len_data" } else { "payload_on_control" });
            }
        }
        (Err(_), None) => {}
        (Ok(p), None) => {
            return (Some(("message-rejects-valid", format!("UtpMessage::deserialize rejects a valid packet {p:?}"))), labels, true);
        }
        (Err(e), Some(m)) => {
            return (Some(("message-accepts-invalid", format!("UtpMessage::deserialize accepts a packet violating {e:?}: {:?} payload {} B", m.header, m.data.len()))), labels, true);
        }
    }
    (None, labels, nontrivial)
}

// ------------------------------------------------------------------------------------------
// (i) generated structured byte strings

#[derive(Clone, Debug, Serialize, Deserialize)]
pub struct Link {
    pub next_id: u8,
    pub declared_len: u8,
    pub data: Vec<u8>,
}
#[derive(Clone, Debug, Serialize, Deserialize)]
pub struct BytesCase {
    pub first: u8,
    pub ext_first: u8,
    pub fixed: Vec<u8>, // 18 bytes
    pub chain: Vec<Link>,
    pub payload: Vec<u8>,
    pub truncate: Option<u16>,
}

impl BytesCase {
    pub fn bytes(&self) -> Vec<u8> {
        let mut b = vec![self.first, self.ext_first];
        let mut f = self.fixed.clone();
        f.resize(18, 0);
        b.extend_from_slice(&f);
        for l in &self.chain {
            b.push(l.next_id);
            b.push(l.declared_len);
            b.extend_from_slice(&l.data);
        }
        b.extend_from_slice(&self.payload);
        if let Some(t) = self.truncate {
            let t = pick_idx(t, b.len() + 1);
            b.truncate(t);
        }
        b
    }
}

fn ext_id() -> impl Strategy<Value = u8> {
    prop_oneof![3 => Just(0u8), 3 => Just(1u8), 1 => Just(2u8), 3 => Just(3u8), 2 => 4u8..=255]
}

pub struct Bytes;
impl CheckDef for Bytes {
    type Case = BytesCase;
    const NAME: &'static str = "bytes";
    fn strategy(_tier: Tier) -> BoxedStrategy<BytesCase> {
        let link = (ext_id(), prop_oneof![Just(0u8), Just(1), Just(4), Just(8), 0u8..=40, any::<u8>()], any::<bool>(), prop::collection::vec(any::<u8>(), 0..12))
            .prop_map(|(next_id, declared_len, consistent, extra)| {
                let data = if consistent {
                    let mut d = extra.clone();
                    d.resize(declared_len as usize, 0xA5);
                    d
                } else {
                    extra
                };
                Link { next_id, declared_len, data }
            });
        (
            prop_oneof![6 => (0u8..5).prop_map(|t| (t << 4) | 1), 2 => any::<u8>()],
            ext_id(),
            prop::collection::vec(any::<u8>(), 18),
            prop::collection::vec(link, 0..6),
            prop::collection::vec(any::<u8>(), 0..64),
            prop::option::weighted(0.3, any::<u16>()),
        )
            .prop_map(|(first, ext_first, fixed, mut chain, payload, truncate)| {
                // make most chains terminate properly: the last link says "no next"
                if let Some(l) = chain.last_mut() {
                    if l.next_id % 3 != 0 { l.next_id = 0; }
                }
                let ext_first = if chain.is_empty() && ext_first % 4 != 0 { 0 } else { ext_first };
                BytesCase { first, ext_first, fixed, chain, payload, truncate }
            })
            .boxed()
    }
    fn run(case: &BytesCase, trace: bool) -> Outcome {
        let b = case.bytes();
        if trace {
            println!("bytes ({}): {:02x?}", b.len(), b);
            println!("reference: {:?}", refparse::parse_message(&b));
            println!("crate header: {:?}", UtpHeader::deserialize(&b));
        }
        let (v, labels, nontrivial) = differential(&b);
        if let Some((sig, detail)) = v {
            return Outcome::violation(format!("bytes/{sig}"), detail);
        }
        let mut o = Outcome::pass();
        o.labels = labels;
        o.nontrivial = nontrivial;
        let mut fp = Fp::default();
        fp.add(case.first as u64);
        fp.add(b.len() as u64);
        for l in &case.chain { fp.add(((l.next_id as u64) << 8) | l.declared_len as u64); fp.add(l.data.len() as u64); }
        o.fingerprint = fp.get();
        o
    }
}

// ------------------------------------------------------------------------------------------
// (i') raw byte strings (the form libFuzzer mutates directly)

#[derive(Clone, Debug, Serialize, Deserialize)]
pub struct RawCase {
    pub bytes: Vec<u8>,
}

pub struct Raw;
impl CheckDef for Raw {
    type Case = RawCase;
    const NAME: &'static str = "raw";
    fn strategy(_tier: Tier) -> BoxedStrategy<RawCase> {
        prop_oneof![
            2 => prop::collection::vec(any::<u8>(), 0..64),
            // a plausible first byte, then anything
            3 => ((0u8..5).prop_map(|t| (t << 4) | 1), prop::collection::vec(any::<u8>(), 0..120)).prop_map(|(f, mut v)| { v.insert(0, f); v }),
        ]
        .prop_map(|bytes| RawCase { bytes })
        .boxed()
    }
    fn run(case: &RawCase, trace: bool) -> Outcome {
        let b = &case.bytes;
        if trace {
            println!("bytes ({}): {:02x?}", b.len(), b);
            println!("reference: {:?}", refparse::parse_message(b));
            println!("crate header: {:?}", UtpHeader::deserialize(b));
        }
        let (v, labels, nontrivial) = differential(b);
        if let Some((sig, detail)) = v {
            return Outcome::violation(format!("bytes/{sig}"), detail);
        }
        let mut o = Outcome::pass();
        o.labels = labels;
        o.nontrivial = nontrivial;
        o.fingerprint = fnv64(b);
        o
    }
}

// ------------------------------------------------------------------------------------------
// exhaustive shape grid

fn grid(ctx: &mut Ctx) {
    const IDS: [u8; 4] = [1, 2, 3, 200];
    const LENS1: [u8; 8] = [0, 1, 4, 5, 8, 9, 36, 255];
    const LENS2: [u8; 3] = [0, 4, 8];
    let mut chains: Vec<Vec<(u8, u8)>> = vec![vec![]];
    for id in IDS { for l in LENS1 { chains.push(vec![(id, l)]); } }
    for i1 in IDS { for i2 in IDS { for l1 in LENS2 { for l2 in LENS2 { chains.push(vec![(i1, l1), (i2, l2)]); } } } }
    let chains = &chains;
    let results: Vec<(u64, u64, Option<(Vec<u8>, &'static str, String)>, std::collections::BTreeMap<&'static str, u64>)> = std::thread::scope(|s| {
        let hs: Vec<_> = (0..SHARDS).map(|sh| s.spawn(move || {
            let mut evals = 0u64; let mut nontriv = 0u64; let mut fail = None;
            let mut labels = std::collections::BTreeMap::new();
            for first in (sh * 16)..(sh * 16 + 16) {
                let first = first as u8; // type nibble = sh, version nibble = 0..15
                for chain in chains {
                    for paylen in [0usize, 5] {
                        let mut b = vec![first, chain.first().map(|c| c.0).unwrap_or(0)];
                        b.extend_from_slice(&[0x11, 0x22, 1, 2, 3, 4, 5, 6, 7, 8, 0, 1, 0, 0, 0xff, 0xfe, 0x00, 0x07]);
                        for (k, (_, l)) in chain.iter().enumerate() {
                            b.push(chain.get(k + 1).map(|c| c.0).unwrap_or(0));
                            b.push(*l);
                            b.extend((0..*l).map(|x| x.wrapping_mul(37).wrapping_add(1)));
                        }
                        b.extend(std::iter::repeat_n(0x5a, paylen));
                        for cut in 0..=b.len() {
                            evals += 1;
                            // "parsing never panics": a panic inside the crate's parser is a violation, not a crash of the check
                            let (r, panics) = catch(|| differential(&b[..cut]));
                            let (v, ls, nt) = match r {
                                Some(x) => x,
                                None => (Some(("panic", format!("the parser panicked: {}; bytes {:02x?}", panics.join(" ; "), &b[..cut]))), vec![], true),
                            };
                            if nt { nontriv += 1; }
                            for l in ls { *labels.entry(l).or_insert(0u64) += 1; }
                            if let Some((sig, d)) = v { if fail.is_none() { fail = Some((b[..cut].to_vec(), sig, d)); } }
                        }
                    }
                }
            }
            (evals, nontriv, fail, labels)
        })).collect();
        hs.into_iter().map(|h| h.join().unwrap()).collect()
    });
    let mut evals = 0; let mut nt = 0; let mut labels = std::collections::BTreeMap::new();
    for (e, n, f, l) in results {
        evals += e; nt += n;
        for (k, v) in l { *labels.entry(k).or_insert(0u64) += v; }
        if let Some((bytes, sig, detail)) = f {
            let case = RawCase { bytes };
            // only report through the replayable case type if it reproduces there
            if run_guarded::<Raw>(&case, false).is_violation() {
                ctx.report_violation::<Raw>(&case, &format!("bytes/{sig}"), &detail);
            } else {
                ctx.engine_error(format!("grid failure not reproducible through RawCase: {sig}: {detail}"));
            }
        }
    }
    ctx.record_manual("grid", evals, std::iter::empty(), labels, vec![json!({"first_byte": "0x21", "chain": [[1, 8], [3, 4]], "payload": 5, "cut": "every prefix"})], nt);
    ctx.extra("grid_inputs", json!(evals));
}

// ------------------------------------------------------------------------------------------
// (ii) header values: round trip

#[derive(Clone, Debug, Serialize, Deserialize)]
pub enum SackSpec {
    None,
    /// built with SelectiveAck::new (the constructor used for output)
    Indices(Vec<u8>),
    /// built by deserialising exactly 8 bytes
    Bytes8(Vec<u8>),
}
#[derive(Clone, Debug, Serialize, Deserialize)]
pub struct HeaderCase {
    pub ptype: u8,
    pub conn_id: u16,
    pub ts: u32,
    pub ts_diff: u32,
    pub wnd: u32,
    pub seq: u16,
    pub ack: u16,
    pub sack: SackSpec,
    pub close_reason: Option<u16>,
    /// None = large buffer (1024); Some(n) = buffer of exactly n bytes
    pub buf_len: Option<u8>,
}

fn edge32() -> impl Strategy<Value = u32> {
    prop_oneof![Just(0u32), Just(1), Just(u32::MAX), Just(0x8000_0000), any::<u32>()]
}
fn edge16() -> impl Strategy<Value = u16> {
    prop_oneof![Just(0u16), Just(1), Just(u16::MAX), Just(0x8000), any::<u16>()]
}

impl HeaderCase {
    fn header(&self) -> UtpHeader {
        UtpHeader {
            htype: type_from(self.ptype % 5),
            connection_id: self.conn_id.into(),
            timestamp_microseconds: self.ts,
            timestamp_difference_microseconds: self.ts_diff,
            wnd_size: self.wnd,
            seq_nr: self.seq.into(),
            ack_nr: self.ack.into(),
            extensions: Extensions {
                selective_ack: match &self.sack {
                    SackSpec::None => None,
                    SackSpec::Indices(ix) => Some(SelectiveAck::new(ix.iter().map(|i| *i as usize))),
                    SackSpec::Bytes8(b) => {
                        let mut a = [0u8; 8];
                        for (i, x) in b.iter().take(8).enumerate() { a[i] = *x; }
                        Some(SelectiveAck::deserialize(&a))
                    }
                },
                close_reason: self.close_reason.map(LibTorrentCloseReason),
            },
        }
    }
}

pub struct Roundtrip;
impl CheckDef for Roundtrip {
    type Case = HeaderCase;
    const NAME: &'static str = "roundtrip";
    fn strategy(_tier: Tier) -> BoxedStrategy<HeaderCase> {
        let sack = prop_oneof![
            2 => Just(SackSpec::None),
            // SelectiveAck::new takes indices in increasing order from the assembler; keep them sorted
            2 => prop::collection::btree_set(0u8..80, 0..20).prop_map(|s| SackSpec::Indices(s.into_iter().collect())),
            2 => prop::collection::vec(any::<u8>(), 8).prop_map(SackSpec::Bytes8),
        ];
        (
            (0u8..5, edge16(), edge32(), edge32(), edge32(), edge16(), edge16()),
            sack,
            prop::option::weighted(0.5, prop_oneof![Just(0u16), Just(15), Just(288), any::<u16>()]),
            prop::option::weighted(0.35, 0u8..64),
        )
            .prop_map(|((ptype, conn_id, ts, ts_diff, wnd, seq, ack), sack, close_reason, buf_len)| HeaderCase { ptype, conn_id, ts, ts_diff, wnd, seq, ack, sack, close_reason, buf_len })
            .boxed()
    }
    fn run(case: &HeaderCase, trace: bool) -> Outcome {
        let h = case.header();
        let n_ext = h.extensions.selective_ack.is_some() as usize + h.extensions.close_reason.is_some() as usize;
        let full_len = 20 + h.extensions.selective_ack.map_or(0, |_| 10) + h.extensions.close_reason.map_or(0, |_| 6);
        let blen = case.buf_len.map(|b| b as usize).unwrap_or(1024);
        let mut buf = vec![0xEEu8; blen];
        let r = h.serialize(&mut buf);
        if trace {
            println!("header: {h:?}\nbuffer len {blen}, serialize -> {r:?}");
            if let Ok(n) = &r { println!("bytes: {:02x?}\nreference parse: {:?}\ncrate parse: {:?}", &buf[..*n], refparse::parse_header(&buf[..*n]), UtpHeader::deserialize(&buf[..*n])); }
        }
        let mut o = Outcome::pass();
        let mut fp = Fp::default();
        fp.add(case.ptype as u64); fp.add(n_ext as u64); fp.add(blen.min(70) as u64);
        fp.add(match &case.sack { SackSpec::None => 0, SackSpec::Indices(v) => 1000 + v.len() as u64, SackSpec::Bytes8(b) => 2000 + b.iter().map(|x| x.count_ones() as u64).sum::<u64>() });
        fp.add(case.seq as u64 ^ ((case.ack as u64) << 16) ^ ((case.conn_id as u64) << 32));
        o.fingerprint = fp.get();
        o.nontrivial = n_ext >= 1;
        if n_ext == 2 { o.labels.push("both_extensions"); }
        if blen < 20 {
            o.labels.push("buffer_lt_20");
            return if r.is_ok() { Outcome::violation("roundtrip/small-buffer-accepted", format!("serialize into a {blen}-byte buffer returned {r:?}")) } else { o };
        }
        let n = match r {
            Ok(n) => n,
            Err(e) => return Outcome::violation("roundtrip/serialize-error", format!("serialize failed with a {blen}-byte buffer: {e}")),
        };
        if n > blen {
            return Outcome::violation("roundtrip/length-beyond-buffer", format!("serialize returned {n} for a {blen}-byte buffer"));
        }
        let wire = &buf[..n];
        // independent parser must accept the output
        let p = match refparse::parse_header(wire) {
            Ok(p) => p,
            Err(e) => return Outcome::violation("roundtrip/output-malformed", format!("serialized header is rejected by the reference parser ({e:?}): {wire:02x?} from {h:?}")),
        };
        let fixed_ok = p.version == 1 && p.ptype == type_num(h.htype) && p.conn_id == h.connection_id.0 && p.ts == h.timestamp_microseconds && p.ts_diff == h.timestamp_difference_microseconds && p.wnd == h.wnd_size && p.seq == h.seq_nr.0 && p.ack == h.ack_nr.0;
        if !fixed_ok {
            return Outcome::violation("roundtrip/fixed-fields", format!("reference parser reads different fixed fields: {p:?} from {h:?}"));
        }
        if !p.payload.is_empty() {
            return Outcome::violation("roundtrip/length", format!("returned length {n} is not the end of the header: reference sees {} trailing bytes; wire {wire:02x?}", p.payload.len()));
        }
        if blen >= full_len {
            if n != full_len {
                return Outcome::violation("roundtrip/length", format!("serialized length {n}, expected {full_len} for {n_ext} extension(s); wire {wire:02x?}"));
            }
            // extension content as seen by the reference parser
            let want_exts: Vec<(u8, Vec<u8>)> = h.extensions.selective_ack.map(|s| (1u8, s.as_bytes().to_vec())).into_iter()
                .chain(h.extensions.close_reason.map(|c| (3u8, (c.0 as u32).to_be_bytes().to_vec()))).collect();
            if p.exts != want_exts {
                return Outcome::violation("roundtrip/extension-chain", format!("extension chain on the wire is {:?}, header has {:?}; wire {wire:02x?}", p.exts, want_exts));
            }
            match UtpHeader::deserialize(wire) {
                Some((h2, n2)) => {
                    if h2 != h || n2 != n {
                        return Outcome::violation("roundtrip/parse-back", format!("deserialize(serialize(h)) = ({h2:?}, {n2}) != ({h:?}, {n})"));
                    }
                    let mut buf2 = vec![0u8; 1024];
                    let n3 = h2.serialize(&mut buf2).unwrap_or(0);
                    if &buf2[..n3] != wire {
                        return Outcome::violation("roundtrip/reserialize", "re-serialising the parsed header does not reproduce the bytes".to_string());
                    }
                }
                None => return Outcome::violation("roundtrip/parse-back", format!("crate cannot parse its own output {wire:02x?}")),
            }
        } else {
            o.labels.push("buffer_too_small_for_extensions");
            // nothing stronger is documented: the output still parses to the same fixed fields
            match UtpHeader::deserialize(wire) {
                Some((h2, _)) => {
                    let mut a = h2; a.extensions = Default::default();
                    let mut b = h; b.extensions = Default::default();
                    if a != b { return Outcome::violation("roundtrip/fixed-fields", format!("short-buffer output parses to different fixed fields: {h2:?} vs {h:?}")); }
                }
                None => return Outcome::violation("roundtrip/parse-back", format!("crate cannot parse its own short-buffer output {wire:02x?}")),
            }
        }
        o
    }
}

pub fn run(ctx: &mut Ctx) {
    ctx.rule("(i) byte strings: exhaustive shape grid (16 types x 16 versions x 177 extension-chain shapes of <=2 links x payload 0/5 x every truncation point) + generated chains of <=6 links with (in)consistent declared lengths, random fixed fields, payload 0..64, optional truncation; oracle = differential against an independent BEP-29 parser (accept/reject, fixed fields, header length = payload boundary, SACK bytes, close reason, payload rule). non-trivial = accepted by a parser or rejected because of the chain. (ii) header values over full field ranges x extensions {none,SACK,close,both} x buffer sizes 0..63 or 1024: round trip, reference parser accepts output. non-trivial = >=1 extension. distinct by hash of shape");
    ctx.assume("SACK extensions whose length is not 8 are parsed leniently (length recorded, bits truncated to 64) by design; they are never produced by the serializer");
    ctx.replay_corpus::<Bytes>();
    ctx.replay_corpus::<Roundtrip>();
    ctx.replay_corpus::<Raw>();
    grid(ctx);
    ctx.run_generated::<Bytes>(ctx.tier.pick(60_000, 3_000_000));
    ctx.run_generated::<Roundtrip>(ctx.tier.pick(30_000, 1_500_000));
    ctx.run_generated::<Raw>(ctx.tier.pick(30_000, 1_500_000));
    ctx.check_floors("bytes", &[
        Floor { label: "chain_overrun", min_count: 100 },
        Floor { label: "unknown_ext_skipped", min_count: 100 },
        Floor { label: "sack_len_not_8", min_count: 100 },
        Floor { label: "chain_ge_2", min_count: 100 },
    ]);
    ctx.check_floors("roundtrip", &[Floor { label: "both_extensions", min_count: 100 }]);
    crate::props::c11_emit::run(ctx);
}

pub fn replay(v: &Value) -> Option<i32> {
    replay_file::<Bytes>("C11", v).or_else(|| replay_file::<Roundtrip>("C11", v)).or_else(|| replay_file::<Raw>("C11", v)).or_else(|| crate::props::c11_emit::replay(v))
}

#[allow(unused)]
fn _unused(_: RefPacket) {}
