//! C10 — Arbitrary datagrams never crash, wedge or cross-contaminate the socket (SP engine + bystander).
use std::collections::BTreeSet;

use proptest::prelude::*;
use serde_json::Value;

use crate::engine::*;
use crate::model::refparse;
use crate::props::gens;
use crate::sim::{
    SockCfg,
    app::{ROp, WOp},
    mc::CallOut,
    sp::{self, Bystander, ForeignPkt, PeerOp, SpCase, SpResult, Step},
};

pub type Case = SpCase;

const MAX_DGRAM: u64 = 16384;

fn sack_bytes() -> BoxedStrategy<Option<Vec<u8>>> {
    prop_oneof![
        3 => Just(None),
        2 => prop::collection::vec(any::<u8>(), 4).prop_map(Some),
        1 => prop::collection::vec(any::<u8>(), 8).prop_map(Some),
        1 => prop::collection::vec(Just(0xffu8), 32).prop_map(Some),
        // lengths that are not a multiple of 4, empty, or longer than any send queue
        2 => prop::collection::vec(any::<u8>(), 0..=3).prop_map(Some),
        1 => prop::collection::vec(any::<u8>(), 5..64).prop_map(Some),
        1 => prop::collection::vec(any::<u8>(), 64..=255).prop_map(Some),
    ]
    .boxed()
}

fn wnd() -> BoxedStrategy<u32> {
    prop_oneof![3 => Just(1u32 << 20), 1 => Just(0u32), 1 => Just(u32::MAX), 1 => 1u32..3000, 1 => any::<u32>()].boxed()
}

fn crafted() -> BoxedStrategy<PeerOp> {
    (
        // DATA / STATE mostly; FIN, RESET, SYN end or restart things and are rarer
        prop_oneof![5 => Just(0u8), 5 => Just(2u8), 1 => Just(1u8), 1 => Just(3u8), 1 => Just(4u8)],
        prop_oneof![4 => -3i16..8, 1 => any::<i16>()],
        // ack relative to the highest sequence number the socket has sent: behind, exact, beyond (never sent)
        prop_oneof![3 => -4i16..1, 3 => 1i16..40, 1 => any::<i16>()],
        wnd(),
        sack_bytes(),
        prop_oneof![6 => Just(0i8), 1 => -2i8..3],
        prop_oneof![3 => Just(0u16), 2 => 1u16..1500, 1 => 1500u16..16000],
    )
        .prop_map(|(ptype, dseq, dack, wnd, sack, did, len)| PeerOp::Crafted { ptype, dseq, dack, wnd, sack, did, len })
        .boxed()
}

fn mangled() -> BoxedStrategy<PeerOp> {
    (
        crafted(),
        prop::collection::vec((prop_oneof![3 => 0u16..20, 2 => 20u16..30, 1 => any::<u16>()], any::<u8>()), 0..4),
        prop::option::weighted(0.5, prop_oneof![2 => 0u8..4, 1 => any::<u8>()]),
        prop::collection::vec(any::<u8>(), 0..40),
        prop::option::weighted(0.5, prop_oneof![1 => 0u16..20, 2 => 20u16..64]),
    )
        .prop_map(|(base, flips, first_ext, append, trunc)| PeerOp::Mangled { base: Box::new(base), flips, first_ext, append, trunc })
        .boxed()
}

fn foreign() -> BoxedStrategy<PeerOp> {
    let hdr = (0u8..5, 0u8..3, any::<u16>(), any::<u16>(), any::<u16>(), wnd(), sack_bytes(), prop_oneof![3 => Just(0u16), 2 => 1u16..1500])
        .prop_map(|(ptype, id_sel, id, seq, ack, wnd, sack, len)| ForeignPkt::Hdr { ptype, id_sel, id, seq, ack, wnd, sack, len });
    (prop_oneof![1 => 0u8..4, 1 => Just(4u8)], prop_oneof![4 => hdr, 1 => prop::collection::vec(any::<u8>(), 0..64).prop_map(ForeignPkt::Raw)])
        .prop_map(|(src, pkt)| PeerOp::Foreign { src, pkt })
        .boxed()
}

fn sock_cfg() -> BoxedStrategy<SockCfg> {
    any::<bool>()
        .prop_flat_map(|v6| {
            (
                gens::link_mtu(v6),
                prop_oneof![3 => (1u32..12).prop_map(|s| (s, true)), 2 => (500u32..300_000).prop_map(|b| (b, false)), 1 => Just((1u32 << 20, false))],
                prop_oneof![2 => Just(32u32 * 1024), 1 => 256u32..8192],
                gens::rnd_stream(),
                any::<bool>(),
            )
                .prop_map(move |(link_mtu, (rx, in_segments), tx_init, rnd, wait_lastack)| {
                    let mut c = SockCfg { v6, link_mtu, rnd, tx_init, wait_lastack, max_live: 64, ..SockCfg::default() };
                    // a receive buffer below one segment advertises a zero window for ever (nothing can be received at all)
                    c.rx_buf = if in_segments { rx * c.max_payload().max(1) as u32 } else { rx.max(2 * c.max_payload() as u32) };
                    c
                })
        })
        .boxed()
}

fn strategy(tier: Tier) -> BoxedStrategy<Case> {
    let max_steps = tier.pick(60usize, 140);
    (sock_cfg(), any::<bool>(), prop_oneof![3 => any::<u16>(), 1 => (65490u32..65536).prop_map(|x| x as u16)], any::<u16>(), any::<u64>(), prop::bool::weighted(0.85))
        .prop_flat_map(move |(sock, incoming, peer_isn, conn_id, key, complete)| {
            let maxp = sock.max_payload().max(1) as u16;
            let data = (prop_oneof![10 => Just(0i16), 4 => 1i16..8, 2 => -6i16..0, 1 => 8i16..70, 1 => any::<i16>()], prop_oneof![2 => Just(1u16), 3 => 1u16..=maxp, 2 => Just(maxp), 1 => 1u16..16000])
                .prop_map(|(dseq, len)| Step::Peer(PeerOp::Data { dseq, len }));
            let ack = (prop_oneof![3 => 0i16..4, 2 => -40i16..0, 1 => any::<i16>()], wnd(), sack_bytes()).prop_map(|(back, wnd, sack)| Step::Peer(PeerOp::Ack { back, wnd, sack }));
            let choices: Vec<(u32, BoxedStrategy<Step>)> = vec![
                (42, data.boxed()),
                (30, ack.boxed()),
                (6, (1u16..5, wnd(), sack_bytes()).prop_map(|(adv, wnd, sack)| Step::Peer(PeerOp::AckAdv { adv, wnd, sack })).boxed()),
                (3, (1u8..5).prop_map(|n| Step::Peer(PeerOp::DupAck(n))).boxed()),
                (2, (prop_oneof![3 => Just(0i16), 2 => -3i16..6, 1 => any::<i16>()], any::<bool>()).prop_map(|(dseq, a)| Step::Peer(if a { PeerOp::FinAck { dseq } } else { PeerOp::Fin { dseq } })).boxed()),
                (1, any::<bool>().prop_map(|ack_fin| Step::Peer(PeerOp::Reset { ack_fin })).boxed()),
                (3, Just(Step::Peer(PeerOp::SynDup)).boxed()),
                (9, prop::collection::vec(any::<u8>(), 0..64).prop_map(|b| Step::Peer(PeerOp::Raw(b))).boxed()),
                (36, crafted().prop_map(Step::Peer).boxed()),
                (30, mangled().prop_map(Step::Peer).boxed()),
                (36, foreign().prop_map(Step::Peer).boxed()),
                (12, (1u32..5000).prop_map(|n| Step::W(WOp::Write { n, chunk: 65536 })).boxed()),
                (1, Just(Step::W(WOp::Shutdown)).boxed()),
                (1, Just(Step::W(WOp::Drop)).boxed()),
                (12, (1u32..30_000, prop_oneof![1 => 1u32..16, 3 => 16u32..65536]).prop_map(|(n, buf)| Step::R(ROp::Read { n, buf })).boxed()),
                (1, Just(Step::R(ROp::ReadToEnd { buf: 65536 })).boxed()),
                (1, Just(Step::R(ROp::Drop)).boxed()),
                (24, (1u32..50).prop_map(Step::Adv).boxed()),
                (6, (200u32..1500).prop_map(Step::Adv).boxed()),
                (1, (5000u32..15_000).prop_map(Step::Adv).boxed()),
            ];
            let step = proptest::strategy::Union::new_weighted(choices);
            let by = prop::option::weighted(
                0.85,
                (any::<bool>(), prop_oneof![1 => 0u32..2000, 2 => 2000u32..60_000], prop_oneof![1 => 0u32..2000, 2 => 2000u32..60_000], any::<u64>(), 0u32..30, gens::rnd_stream())
                    .prop_map(|(incoming, n_to_sock, n_from_sock, key, start_ms, rnd)| Bystander { incoming, n_to_sock, n_from_sock, key, start_ms, probe: true, rnd }),
            );
            (prop::collection::vec(step, 3..max_steps), by).prop_map(move |(steps, mut bystander)| {
                // keep the bystander's exchange within ~300 segments each way and leave it time to finish
                let minp = sock.min_payload().max(1) as u32;
                let mut linger_ms = 4000;
                if let Some(b) = bystander.as_mut() {
                    b.n_to_sock = b.n_to_sock.min(300 * minp);
                    b.n_from_sock = b.n_from_sock.min(300 * minp);
                    linger_ms = 6000 + ((b.n_to_sock + b.n_from_sock) / minp) * 45;
                }
                SpCase {
                sock: sock.clone(),
                incoming,
                peer_isn,
                conn_id,
                peer_wnd: 1 << 20,
                complete_handshake: complete,
                key,
                steps,
                linger_ms,
                discipline: false,
                bystander,
            }})
        })
        .boxed()
}

pub fn oracle(case: &Case, res: &SpResult, panics: &[String]) -> Outcome {
    let mut out = Outcome::pass();
    let mut labels: BTreeSet<&'static str> = BTreeSet::new();
    macro_rules! viol {
        ($sig:expr, $($arg:tt)*) => { return Outcome { verdict: Verdict::Violation { signature: $sig.to_string(), detail: format!($($arg)*) }, ..out } };
    }
    // ---- never crash
    if let Some(p) = panics.iter().find(|p| p.contains("[origin:lib]") || p.contains("@ /repo/")) {
        let loc = p.split(" @ ").nth(1).unwrap_or("").split(' ').next().unwrap_or("").replace("/repo/", "");
        // (dependencies: crate directory and file only, not the registry path)
        let loc = match loc.find("/registry/src/") { Some(_) => loc.rsplit('/').take(4).collect::<Vec<_>>().into_iter().rev().collect::<Vec<_>>().join("/"), None => loc };
        viol!(format!("panic@{loc}"), "the library panicked: {p}");
    }
    if res.wedge {
        viol!("wedge", "the socket emitted more than 200000 datagrams at one virtual instant or spun without advancing");
    }
    // ---- never an internal 'bug:' error
    for e in res.conn_events.iter().filter(|e| e.kind == "vsock-end") {
        if e.error.to_lowercase().contains("bug") {
            viol!(format!("bug-error:{}", e.error.chars().take(40).collect::<String>()), "a connection task (remote {}, id {}) ended with an internal error: {}", e.remote, e.id, e.error);
        }
    }
    for e in [&res.read_err, &res.write_err].into_iter().flatten() {
        if e.to_lowercase().contains("bug") {
            viol!(format!("bug-error:{}", e.chars().take(40).collect::<String>()), "the stream reported an internal error: {e}");
        }
    }
    // ---- what a connection buffers is bounded by its configuration
    let slots_max = ((case.sock.rx_buf as u64) / case.sock.min_payload().max(1) as u64).max(64);
    let sock_addr = res.sock_addr.map(|a| a.to_string()).unwrap_or_default();
    for e in res.conn_events.iter().filter(|e| e.kind == "vsock-buf") {
        // connections of the socket under test are those whose remote is not the socket itself
        if e.remote == sock_addr { continue; }
        let (rxq, msgs, bytes) = e.buf;
        if msgs > slots_max || bytes > slots_max * MAX_DGRAM || rxq > case.sock.rx_buf as u64 + slots_max * MAX_DGRAM {
            viol!("buffer-bound", "connection (remote {}, id {}) buffers {rxq} bytes for the reader and {msgs} reassembly messages / {bytes} bytes; configured receive buffer {} bytes = at most {slots_max} slots of at most {MAX_DGRAM} bytes", e.remote, e.id, case.sock.rx_buf);
        }
        if msgs * 2 >= slots_max.min(case.sock.rx_buf as u64 / case.sock.max_payload().max(1) as u64).max(1) { labels.insert("reassembly_half_full"); }
    }
    // ---- the bystander connection and the accept/connect service are not disturbed
    let hostile_dgrams = res.log.iter().filter(|r| !r.from_stack && r.idx >= res.steps_from_idx).count();
    let malformed = res.log.iter().filter(|r| !r.from_stack && r.pkt.is_none()).count();
    if malformed > 0 { labels.insert("malformed_datagrams"); }
    if let (Some(by), Some(b)) = (&case.bystander, &res.by) {
        let what = |s: &crate::sim::mc::StreamOut, n: u32| format!("read {}/{} bad_at {:?} extra {} eof {} read_err {:?} write_err {:?} complete {:?}", s.read_ok, n, s.bad_at, s.extra_bytes, s.eof, s.read_err, s.write_err, s.complete_at_us);
        let (n_conn_reads, n_acc_reads) = if by.incoming { (by.n_from_sock, by.n_to_sock) } else { (by.n_to_sock, by.n_from_sock) };
        if !matches!(b.connect, CallOut::Ok(_)) {
            viol!("bystander-connect", "the bystander connection ({}) could not be established: {:?}", if by.incoming { "towards the socket under test" } else { "from the socket under test" }, b.connect);
        }
        let Some(acc) = &b.acceptor else { viol!("bystander-accept", "the bystander's connect succeeded but no accepted stream delivered its token (accept error {:?}, {} other streams accepted)", b.accept_err, b.stray_accepts) };
        for (s, n, side) in [(&b.connector, n_conn_reads, "connector"), (acc, n_acc_reads, "acceptor")] {
            if s.bad_at.is_some() || s.extra_bytes > 0 {
                viol!("bystander-contaminated", "the bystander's {side} stream delivered bytes that its peer did not write: {}", what(s, n));
            }
            if s.complete_at_us.is_none() || !s.eof || s.read_err.is_some() || s.write_err.is_some() {
                viol!("bystander-disturbed", "the bystander's {side} stream did not complete cleanly although the network loses nothing: {}", what(s, n));
            }
        }
        labels.insert("bystander_ok");
        // fresh connection afterwards — unless the hostile SYNs alone could have filled the request queue
        let syns = res.log.iter().filter(|r| !r.from_stack && r.pkt.as_ref().is_some_and(|p| p.ptype == refparse::ST_SYN)).count();
        if by.probe && syns < 24 {
            if !matches!(b.probe_connect, CallOut::Ok(_)) || !b.probe_token_seen {
                viol!("service-disturbed", "after the hostile traffic a fresh connection in the bystander's direction was not established: connect {:?}, token seen by the listener: {} (accept error {:?})", b.probe_connect, b.probe_token_seen, b.accept_err);
            }
            labels.insert("service_ok");
        }
        if b.stray_accepts > 0 { labels.insert("hostile_syn_accepted"); }
    }
    if !res.established { labels.insert("hostile_conn_not_established"); }
    if res.conn_events.iter().any(|e| e.kind == "vsock-end" && e.error != "none") { labels.insert("some_connection_failed"); }
    if res.conn_events.iter().any(|e| e.kind == "vsock-end" && e.error.contains("RESET")) { labels.insert("reset_received"); }
    out.labels = labels.iter().copied().collect();
    out.nontrivial = hostile_dgrams >= 5;
    let mut fp = Fp::default();
    for r in &res.log { if let Some(p) = &r.pkt { fp.add(((p.ptype as u64) << 40) | ((p.seq as u64) << 20) | p.ack as u64); fp.add(r.from_stack as u64); } else { fp.add(r.bytes.len() as u64 ^ 0x55); } }
    out.fingerprint = fp.get();
    out
}

/// Structured decoding of a fuzzer's byte string into a case (hand-written counterpart of `strategy`, so that
/// libFuzzer's mutations stay local: one op is a handful of bytes).
pub fn decode(data: &[u8]) -> Case {
    use arbitrary::Unstructured;
    let mut u = Unstructured::new(data);
    macro_rules! r { ($lo:expr, $hi:expr) => { u.int_in_range($lo..=$hi).unwrap_or($lo) }; }
    macro_rules! b { () => { u.arbitrary::<bool>().unwrap_or(false) }; }
    fn bytes(u: &mut Unstructured, max: usize) -> Vec<u8> {
        let n = u.int_in_range(0..=max).unwrap_or(0);
        u.bytes(n.min(u.len())).map(|b| b.to_vec()).unwrap_or_default()
    }
    fn sack(u: &mut Unstructured) -> Option<Vec<u8>> {
        match u.int_in_range(0u8..=7).unwrap_or(0) {
            0..=2 => None,
            3 => Some(bytes(u, 3)),
            4 => { let mut v = bytes(u, 4); v.resize(4, 0xff); Some(v) }
            5 => { let mut v = bytes(u, 8); v.resize(8, 0x55); Some(v) }
            6 => { let n = u.int_in_range(5usize..=255).unwrap_or(5); Some(vec![0xff; n]) }
            _ => Some(bytes(u, 64)),
        }
    }
    fn wnd(u: &mut Unstructured) -> u32 {
        match u.int_in_range(0u8..=6).unwrap_or(0) { 0..=2 => 1 << 20, 3 => 0, 4 => u32::MAX, 5 => u.int_in_range(1u32..=3000).unwrap_or(1), _ => u.arbitrary().unwrap_or(0) }
    }
    fn i16ish(u: &mut Unstructured, lo: i16, hi: i16) -> i16 {
        if u.ratio(1u8, 8u8).unwrap_or(false) { u.arbitrary().unwrap_or(0) } else { u.int_in_range(lo..=hi).unwrap_or(lo) }
    }
    fn crafted(u: &mut Unstructured) -> PeerOp {
        let ptype = [0u8, 2, 0, 2, 0, 2, 1, 3, 4][u.int_in_range(0usize..=8).unwrap_or(0)];
        PeerOp::Crafted { ptype, dseq: i16ish(u, -3, 8), dack: i16ish(u, -4, 40), wnd: wnd(u), sack: sack(u), did: if u.ratio(1u8, 7u8).unwrap_or(false) { u.int_in_range(-2i8..=2).unwrap_or(0) } else { 0 }, len: match u.int_in_range(0u8..=5).unwrap_or(0) { 0..=2 => 0, 3 | 4 => u.int_in_range(1u16..=1500).unwrap_or(1), _ => u.int_in_range(1500u16..=16000).unwrap_or(1500) } }
    }
    let v6 = b!();
    let mtus: &[u16] = if v6 { &[78, 120, 300, 1280, 1400, 1500, 1500, 9000] } else { &[58, 100, 300, 576, 1000, 1280, 1500, 1500, 9000] };
    let link_mtu = mtus[r!(0usize, mtus.len() - 1)];
    let mut sock = SockCfg { v6, link_mtu, max_live: 64, wait_lastack: b!(), tx_init: if b!() { 32 * 1024 } else { r!(256u32, 8192) }, rnd: vec![u.arbitrary().unwrap_or(0), u.arbitrary().unwrap_or(0), u.arbitrary().unwrap_or(0)], ..SockCfg::default() };
    sock.rx_buf = match r!(0u8, 5) { 0..=2 => r!(1u32, 11) * sock.max_payload().max(1) as u32, 3 | 4 => r!(500u32, 300_000).max(2 * sock.max_payload() as u32), _ => 1 << 20 };
    let maxp = sock.max_payload().max(1) as u16;
    let minp = sock.min_payload().max(1) as u32;
    let incoming = b!();
    let peer_isn: u16 = if u.ratio(1u8, 4u8).unwrap_or(false) { r!(65490u32, 65535) as u16 } else { u.arbitrary().unwrap_or(0) };
    let conn_id: u16 = u.arbitrary().unwrap_or(0);
    let key: u64 = u.arbitrary().unwrap_or(0);
    let complete = !u.ratio(1u8, 7u8).unwrap_or(false);
    let bystander = if u.ratio(6u8, 7u8).unwrap_or(true) {
        let n_to = r!(0u32, 60_000).min(300 * minp);
        let n_from = r!(0u32, 60_000).min(300 * minp);
        Some(Bystander { incoming: b!(), n_to_sock: n_to, n_from_sock: n_from, key: u.arbitrary().unwrap_or(1), start_ms: r!(0u32, 29), probe: true, rnd: vec![u.arbitrary().unwrap_or(0), u.arbitrary().unwrap_or(0), u.arbitrary().unwrap_or(0)] })
    } else { None };
    let n = r!(3usize, 120);
    let mut steps = vec![];
    for _ in 0..n {
        if u.is_empty() { break; }
        let step = match r!(0u8, 39) {
            0..=6 => Step::Peer(PeerOp::Data { dseq: if b!() { 0 } else { i16ish(&mut u, -6, 70) }, len: match r!(0u8, 4) { 0 => 1, 1 | 2 => r!(1u16, maxp), 3 => maxp, _ => r!(1u16, 16000) } }),
            7..=11 => Step::Peer(PeerOp::Ack { back: i16ish(&mut u, -40, 4), wnd: wnd(&mut u), sack: sack(&mut u) }),
            12 => Step::Peer(PeerOp::AckAdv { adv: r!(1u16, 4), wnd: wnd(&mut u), sack: sack(&mut u) }),
            13 => Step::Peer(PeerOp::DupAck(r!(1u8, 4))),
            14 => { let dseq = i16ish(&mut u, -3, 6); Step::Peer(if b!() { PeerOp::FinAck { dseq } } else { PeerOp::Fin { dseq } }) }
            15 => if u.ratio(1u8, 3u8).unwrap_or(false) { Step::Peer(PeerOp::Reset { ack_fin: b!() }) } else { Step::Peer(PeerOp::SynDup) },
            16 | 17 => Step::Peer(PeerOp::Raw(bytes(&mut u, 64))),
            18..=23 => Step::Peer(crafted(&mut u)),
            24..=28 => {
                let base = crafted(&mut u);
                let nf = r!(0usize, 3);
                let flips = (0..nf).map(|_| (if u.ratio(1u8, 6u8).unwrap_or(false) { u.arbitrary().unwrap_or(0) } else { u.int_in_range(0u16..=29).unwrap_or(0) }, u.arbitrary().unwrap_or(0))).collect();
                Step::Peer(PeerOp::Mangled { base: Box::new(base), flips, first_ext: if b!() { Some(if b!() { r!(0u8, 3) } else { u.arbitrary().unwrap_or(0) }) } else { None }, append: bytes(&mut u, 40), trunc: if b!() { Some(r!(0u16, 63)) } else { None } })
            }
            29..=33 => {
                let src = if b!() { 4 } else { r!(0u8, 3) };
                let pkt = if u.ratio(1u8, 5u8).unwrap_or(false) { ForeignPkt::Raw(bytes(&mut u, 64)) } else {
                    ForeignPkt::Hdr { ptype: r!(0u8, 4), id_sel: r!(0u8, 2), id: u.arbitrary().unwrap_or(0), seq: u.arbitrary().unwrap_or(0), ack: u.arbitrary().unwrap_or(0), wnd: wnd(&mut u), sack: sack(&mut u), len: if b!() { 0 } else { r!(1u16, 1500) } }
                };
                Step::Peer(PeerOp::Foreign { src, pkt })
            }
            34 => Step::W(WOp::Write { n: r!(1u32, 5000), chunk: 65536 }),
            35 => match r!(0u8, 7) { 0 => Step::W(WOp::Shutdown), 1 => Step::W(WOp::Drop), 2 => Step::R(ROp::Drop), 3 => Step::R(ROp::ReadToEnd { buf: 65536 }), _ => Step::W(WOp::Write { n: r!(1u32, 5000), chunk: 65536 }) },
            36 => Step::R(ROp::Read { n: r!(1u32, 30_000), buf: r!(1u32, 65536) }),
            37 | 38 => Step::Adv(r!(1u32, 50)),
            _ => Step::Adv(if u.ratio(1u8, 4u8).unwrap_or(false) { r!(5000u32, 15_000) } else { r!(200u32, 1500) }),
        };
        steps.push(step);
    }
    let mut linger_ms = 4000;
    if let Some(b) = &bystander {
        linger_ms = 6000 + ((b.n_to_sock + b.n_from_sock) / minp) * 45;
    }
    SpCase { sock, incoming, peer_isn, conn_id, peer_wnd: 1 << 20, complete_handshake: complete, key, steps, linger_ms, discipline: false, bystander }
}

pub struct Hostile;
impl CheckDef for Hostile {
    type Case = Case;
    const NAME: &'static str = "hostile";
    fn strategy(tier: Tier) -> BoxedStrategy<Case> {
        strategy(tier)
    }
    fn run(case: &Case, trace: bool) -> Outcome {
        let _ = take_panics();
        let res = sp::run(case, trace);
        let panics = take_panics();
        oracle(case, &res, &panics)
    }
}

pub fn run(ctx: &mut Ctx) {
    ctx.rule("SP + bystander: a scripted peer holds a connection (either direction, handshake completed or not) with the socket under test and sends generated datagrams: data anywhere in or out of the window, acks behind/at/beyond what was sent, windows 0..2^32-1, selective acks of 0..255 bytes, FIN/RESET/SYN in any state, crafted packets of every type with near and random ids, encodings damaged by byte overwrites / forced extension bytes / junk / truncation, raw bytes; datagrams from unbound addresses and spoofed from the bystander's address (never with the bystander connection's own id); interleaved with application writes/reads/shutdown/drops and clock advances up to 15 s. In 85 % of the cases a second real socket runs a token + keyed-payload exchange with the socket under test meanwhile and opens a fresh connection afterwards. Oracle: no panic in library code (panic hook with backtrace attribution), no 'bug' error at any stream or task end, no spin, every connection's buffered bytes/messages within its configured slots x 16384 (cfg-guarded gauge hook), bystander exchange complete, intact, clean EOF; fresh connection established. non-trivial = at least 5 hostile datagrams; distinct by hash of the wire log");
    ctx.assume("the request queue (32) is not asserted against SYN floods: the fresh-connection clause applies when fewer than 24 hostile SYNs were sent");
    ctx.replay_corpus::<Hostile>();
    ctx.run_generated::<Hostile>(ctx.tier.pick(30_000, 2_000_000));
}

pub fn replay(v: &Value) -> Option<i32> {
    replay_file::<Hostile>("C10", v)
}
