//! C01 component clause (Segments / OutOfOrderQueue / UserRx vs list models) — below.
use crate::engine::*;
use serde_json::Value;
pub fn run(_ctx: &mut Ctx) {}
pub fn replay(_v: &Value) -> Option<i32> { None }
