//! C09 — Behaviour invariant under initial sequence numbers (16-bit wrap safety).
//! (a) arithmetic, exhaustive over all 2^32 pairs; (b) metamorphic trace equality (see c09b).
use std::cmp::Ordering;

use librqbit_utp::verif_hooks::SeqNr;
use proptest::prelude::*;
use serde::{Deserialize, Serialize};
use serde_json::{Value, json};

use crate::engine::*;
use crate::model::seq::dist;

#[derive(Clone, Debug, Serialize, Deserialize)]
pub struct Pair {
    pub a: u16,
    pub b: u16,
}

/// Returns Some(detail) when the crate's arithmetic disagrees with true modular arithmetic.
#[inline]
fn check_pair(a: u16, b: u16) -> Option<String> {
    let d = dist(a, b);
    if d == -32768 {
        // |d| = 32768 is ambiguous in serial-number arithmetic; not claimed.
        return None;
    }
    let got = SeqNr(a) - SeqNr(b);
    if got != d as isize {
        return Some(format!("SeqNr({a}) - SeqNr({b}) = {got}, true modular distance is {d}"));
    }
    let ord = SeqNr(a).cmp(&SeqNr(b));
    let want = d.cmp(&0);
    if ord != want {
        return Some(format!("SeqNr({a}).cmp(SeqNr({b})) = {ord:?}, modular order is {want:?} (distance {d})"));
    }
    None
}

fn check_addsub(a: u16, k: u16) -> Option<String> {
    if (SeqNr(a) + k).0 != a.wrapping_add(k) {
        return Some(format!("SeqNr({a}) + {k} = {} (expected wrapping {})", (SeqNr(a) + k).0, a.wrapping_add(k)));
    }
    if (SeqNr(a) - k).0 != a.wrapping_sub(k) {
        return Some(format!("SeqNr({a}) - {k}u16 = {} (expected wrapping {})", (SeqNr(a) - k).0, a.wrapping_sub(k)));
    }
    let mut x = SeqNr(a);
    x += k;
    x -= k;
    if x.0 != a {
        return Some(format!("SeqNr({a}) += {k}; -= {k} gives {}", x.0));
    }
    None
}

pub struct Arith;
impl CheckDef for Arith {
    type Case = Pair;
    const NAME: &'static str = "arith";
    fn strategy(_tier: Tier) -> BoxedStrategy<Pair> {
        (any::<u16>(), any::<u16>()).prop_map(|(a, b)| Pair { a, b }).boxed()
    }
    fn run(case: &Pair, trace: bool) -> Outcome {
        let r = check_pair(case.a, case.b).or_else(|| check_addsub(case.a, case.b));
        if trace {
            println!("a={} b={} modular distance={} crate: diff={} cmp={:?}", case.a, case.b, dist(case.a, case.b), SeqNr(case.a) - SeqNr(case.b), SeqNr(case.a).cmp(&SeqNr(case.b)));
        }
        match r {
            Some(detail) => {
                let d = dist(case.a, case.b);
                // signature classes (used by known_findings.json)
                let crosses = (case.a < case.b) != (d < 0) || (d != 0 && (case.a as i32 - case.b as i32) != d);
                let sig = if d.abs() > 1024 && crosses { "arith/wrap-tolerance-1024" } else { "arith/other" };
                Outcome::violation(sig, detail)
            }
            None => {
                let mut o = Outcome::pass();
                let d = dist(case.a, case.b);
                o.nontrivial = d != 0 && (case.a as i32 - case.b as i32) != d; // pair straddles the wrap
                o.fingerprint = ((case.a as u64) << 16) | case.b as u64;
                o
            }
        }
    }
}

fn exhaustive(ctx: &mut Ctx) {
    // all 2^32 pairs, split over 16 threads by `a`
    let results: Vec<(u64, u64, Option<(u16, u16, String)>, [u64; 4])> = std::thread::scope(|s| {
        let hs: Vec<_> = (0..SHARDS)
            .map(|sh| {
                s.spawn(move || {
                    let mut evals = 0u64;
                    let mut straddle = 0u64;
                    let mut first: Option<(u16, u16, String)> = None;
                    let mut classes = [0u64; 4]; // |d|<=1024, <=4096, <=16384, <32768 among straddling
                    let lo = (65536 / SHARDS) * sh;
                    let hi = (65536 / SHARDS) * (sh + 1);
                    for a in lo..hi {
                        let a = a as u16;
                        for b in 0..=u16::MAX {
                            evals += 1;
                            let d = dist(a, b);
                            if d != 0 && (a as i32 - b as i32) != d && d != -32768 {
                                straddle += 1;
                                let m = d.unsigned_abs();
                                classes[if m <= 1024 { 0 } else if m <= 4096 { 1 } else if m <= 16384 { 2 } else { 3 }] += 1;
                            }
                            if let Some(detail) = check_pair(a, b) {
                                // keep the failure with the smallest |d| (most minimal)
                                let better = match &first { None => true, Some((fa, fb, _)) => dist(*fa, *fb).abs() > d.abs() };
                                if better { first = Some((a, b, detail)); }
                            }
                        }
                        if let Some(detail) = check_addsub(a, a.rotate_left(3) ^ 0x5a5a) {
                            first.get_or_insert((a, a.rotate_left(3) ^ 0x5a5a, detail));
                        }
                    }
                    (evals, straddle, first, classes)
                })
            })
            .collect();
        hs.into_iter().map(|h| h.join().unwrap()).collect()
    });
    let mut evals = 0;
    let mut straddle = 0;
    let mut classes = [0u64; 4];
    let mut worst: Option<(u16, u16, String)> = None;
    for (e, s, f, c) in results {
        evals += e;
        straddle += s;
        for i in 0..4 { classes[i] += c[i]; }
        if let Some(f) = f {
            let better = match &worst { None => true, Some((wa, wb, _)) => dist(*wa, *wb).abs() > dist(f.0, f.1).abs() };
            if better { worst = Some(f); }
        }
    }
    ctx.record_manual(
        "arith-exhaustive",
        evals,
        std::iter::empty(),
        [("straddles_wrap_le_1024", classes[0]), ("straddles_wrap_le_4096", classes[1]), ("straddles_wrap_le_16384", classes[2]), ("straddles_wrap_lt_32768", classes[3])],
        vec![json!({"a": 0, "b": 65535, "modular_distance": 1}), json!({"a": 1024, "b": 65535, "modular_distance": 1025}), json!({"a": 65535, "b": 32769, "modular_distance": 32766})],
        straddle, // each pair is visited exactly once, so the straddling pairs are distinct by construction
    );
    ctx.extra("arith_pairs_enumerated", json!(evals));
    ctx.extra("arith_pairs_straddling_wrap", json!(straddle));
    if let Some((a, b, detail)) = worst {
        let out = Arith::run(&Pair { a, b }, false);
        if let Verdict::Violation { signature, .. } = out.verdict {
            ctx.report_violation::<Arith>(&Pair { a, b }, &signature, &detail);
        }
    }
}

pub fn run(ctx: &mut Ctx) {
    ctx.rule("(a) all 2^32 pairs (a,b) of 16-bit values: SeqNr difference/ordering vs true modular distance for |d|<32768 (exhaustive; |d|=32768 is ambiguous and not claimed); add/sub of u16 wrap; non-trivial = pair straddles the 65535->0 wrap");
    ctx.replay_corpus::<Arith>();
    exhaustive(ctx);
    ctx.run_generated::<Arith>(20_000);
    ctx.set_exhaustive(true);
    crate::props::c09b::run(ctx);
}

pub fn replay(v: &Value) -> Option<i32> {
    replay_file::<Arith>("C09", v).or_else(|| crate::props::c09b::replay(v))
}
