//! C12 — Concurrent connections on one socket are isolated and bounded (MC engine).
use std::collections::{BTreeMap, BTreeSet};

use proptest::prelude::*;
use serde_json::Value;

use crate::engine::*;
use crate::model::refparse;
use crate::props::gens;
use crate::sim::{
    Family, NetPlan, SockCfg,
    mc::{self, CallOut, McAccept, McCase, McConn, McResult},
};

pub type Case = McCase;

const CONNECT_PATIENCE_MS: u32 = 6_000;

fn strategy(tier: Tier) -> BoxedStrategy<Case> {
    let max_conns = tier.pick(14usize, 24);
    (any::<bool>(), 2usize..5, prop::bool::weighted(0.7), any::<u16>(), prop::bool::weighted(0.3))
        .prop_flat_map(move |(v6, nsock, loss_free, base_id, adjacent_ids)| {
            let sock = (
                prop_oneof![3 => 1u16..5, 2 => 5u16..12, 1 => Just(64u16)],
                // initial connection id: near a common base (ids of different sockets adjacent) or anywhere
                if adjacent_ids { (0u16..6).prop_map(move |d| base_id.wrapping_add(d)).boxed() } else { any::<u16>().boxed() },
                // initial sequence numbers: often colliding
                prop::collection::vec(prop_oneof![2 => any::<u16>(), 2 => 0u16..3, 1 => 65533u16..=65535], 2..8),
            )
                .prop_map(move |(limit, id0, seqs)| {
                    let mut rnd = vec![id0];
                    rnd.extend(seqs);
                    SockCfg { v6, max_live: limit, rnd, inactivity_ms: 10_000, ..SockCfg::default() }
                });
            let conn = (0usize..nsock, 1usize..nsock, prop_oneof![3 => 0u32..4, 2 => 0u32..60, 1 => 0u32..3000], prop_oneof![2 => 0u32..200, 3 => 200u32..6000, 1 => 6000u32..40_000], prop_oneof![2 => 0u32..200, 3 => 200u32..6000, 1 => 6000u32..40_000], prop_oneof![2 => 0u32..50, 2 => 50u32..2000, 1 => 2000u32..8000], any::<u64>())
                .prop_map(move |(from, d, at_ms, n_a, n_b, hold_ms, key)| McConn { from, to: (from + d) % nsock, at_ms, patience_ms: Some(CONNECT_PATIENCE_MS), n_a, n_b, hold_ms, key });
            (
                prop::collection::vec(sock, nsock..=nsock),
                prop::collection::vec(conn, 1..=max_conns),
                gens::latency(),
                if loss_free { Just(vec![]).boxed() } else { gens::fates_fair(300, 120) },
                prop::collection::vec((0u32..80, 0u8..3), nsock..=nsock),
                // accept calls that are given up before anything arrives (their place in the acceptor queue stays
                // behind as a dead entry that the next request is offered to first)
                prop::collection::vec(prop::option::weighted(0.3, (1u8..3, 1u32..40)), nsock..=nsock),
            )
                .prop_map(move |(socks, conns, lat_ms, fates, acc, impatient)| {
                    // accept calls: one per incoming connection plus a few spare, issued at generated instants
                    let mut accepts = vec![];
                    for (si, (t0, spare)) in acc.iter().enumerate() {
                        if let Some((n, patience)) = impatient[si] {
                            for _ in 0..n { accepts.push(McAccept { sock: si, at_ms: *t0, patience_ms: Some(patience) }); }
                        }
                        let n = conns.iter().filter(|c| c.to == si).count() + *spare as usize;
                        for j in 0..n {
                            accepts.push(McAccept { sock: si, at_ms: t0 + j as u32, patience_ms: None });
                        }
                    }
                    let family = if fates.is_empty() { Family::LossFree } else { Family::FairLossy { k: 1 } };
                    McCase { socks, net: NetPlan { family, lat_ms, path_mtu: (None, None), fates, cut_at: None }, conns, accepts, events: vec![], end_ms: 400_000 }
                })
        })
        .boxed()
}

pub fn oracle(case: &McCase, res: &McResult) -> Outcome {
    let mut out = Outcome::pass();
    let mut labels: BTreeSet<&'static str> = BTreeSet::new();
    macro_rules! viol {
        ($sig:expr, $($arg:tt)*) => { return Outcome { verdict: Verdict::Violation { signature: $sig.to_string(), detail: format!($($arg)*) }, ..out } };
    }
    let loss_free = case.net.family == Family::LossFree;
    // --- every call resolved in an allowed way
    for (ci, c) in res.conns.iter().enumerate() {
        match &c.out {
            CallOut::Ok(_) | CallOut::Abandoned(_) => {}
            CallOut::Err(_, e) => {
                // "attempts beyond it fail or wait": the only failure a connect may report here
                if !(e.contains("TooManyActiveConnections") || e.contains("too many")) {
                    viol!("connect-error", "connect #{ci} failed with an unexpected error: {e}");
                }
                labels.insert("connect_refused");
            }
            CallOut::NotCalled | CallOut::Pending => viol!("connect-unresolved", "connect #{ci} (patience {} ms) neither completed, failed nor was abandoned by the end", CONNECT_PATIENCE_MS),
        }
    }
    // --- isolation: every stream only ever yields its own connection's bytes
    let mut by_token: BTreeMap<usize, Vec<usize>> = BTreeMap::new();
    for (k, a) in res.accs.iter().enumerate() {
        if let CallOut::Ok(_) = a.out {
            if a.token_garbled {
                viol!("garbled-token", "accept #{k} (socket {}) returned a stream from {:?} whose first bytes are not the token of any connect call", case.accepts[k].sock, a.remote);
            }
            if let Some(ci) = a.token {
                by_token.entry(ci).or_default().push(k);
                let c = &case.conns[ci];
                if c.to != case.accepts[k].sock || a.remote != Some(res.addrs[c.from]) {
                    viol!("wrong-peer", "accept #{k} on socket {} (remote {:?}) delivered the token of connect #{ci}, which went from socket {} to socket {}", case.accepts[k].sock, a.remote, c.from, c.to);
                }
                if let Some(b) = a.stream.bad_at {
                    viol!("foreign-bytes", "the stream accepted for connect #{ci} delivered a wrong byte at offset {b} of the connector's stream");
                }
                if a.stream.extra_bytes > 0 {
                    viol!("foreign-bytes", "the stream accepted for connect #{ci} delivered {} bytes beyond the {} the connector wrote", a.stream.extra_bytes, c.n_a);
                }
            }
        }
    }
    for (ci, ks) in &by_token {
        if ks.len() > 1 {
            viol!("token-twice", "the token of connect #{ci} was delivered by {} accepted streams (accept calls {:?})", ks.len(), ks);
        }
        if !matches!(res.conns[*ci].out, CallOut::Ok(_)) {
            // the connect call was abandoned / failed, yet its token arrived: impossible (the token is written after Ok)
            viol!("token-without-connect", "the token of connect #{ci} arrived although that call ended as {:?}", res.conns[*ci].out);
        }
    }
    for (ci, c) in res.conns.iter().enumerate() {
        if let CallOut::Ok(_) = c.out {
            if let Some(b) = c.stream.bad_at {
                viol!("foreign-bytes", "the stream of connect #{ci} delivered a wrong byte at offset {b} of its acceptor's stream");
            }
            if c.stream.extra_bytes > 0 {
                viol!("foreign-bytes", "the stream of connect #{ci} delivered {} bytes beyond the {} its acceptor wrote", c.stream.extra_bytes, case.conns[ci].n_b);
            }
        }
    }
    // --- the ids each established connection really uses: read off the datagram that carries its token
    // (pending connects are matched to SYN-ACKs by sequence number only, so call order does not tell)
    let mut syn_of: BTreeMap<usize, (u16, u64)> = BTreeMap::new(); // connect -> (SYN id, t of the token datagram)
    for (ci, c) in case.conns.iter().enumerate() {
        if !matches!(res.conns[ci].out, CallOut::Ok(_)) { continue; }
        let tok = mc::token(ci, c.key);
        if let Some(r) = res.log.iter().find(|r| r.from_stack && r.src == res.addrs[c.from] && r.dst == res.addrs[c.to] && r.pkt.as_ref().is_some_and(|p| p.ptype == refparse::ST_DATA && p.payload.starts_with(&tok))) {
            syn_of.insert(ci, (r.pkt.as_ref().unwrap().conn_id.wrapping_sub(1), r.t_us));
        }
    }
    // SYNs in opposite directions between two sockets whose ids are adjacent would share a receive id at one end;
    // with equal ids the later SYN itself is addressed to the earlier connection at the peer. Such a call may wait.
    let mut clash_pairs: BTreeSet<(usize, usize)> = BTreeSet::new();
    {
        let syns: Vec<(usize, usize, u16)> = res.log.iter().filter(|r| r.from_stack).filter_map(|r| {
            let p = r.pkt.as_ref()?;
            if p.ptype != refparse::ST_SYN { return None; }
            Some((res.addrs.iter().position(|a| *a == r.src)?, res.addrs.iter().position(|a| *a == r.dst)?, p.conn_id))
        }).collect();
        for &(f1, t1, x) in &syns {
            for &(f2, t2, y) in &syns {
                if f1 == t2 && t1 == f2 && (x == y || x == y.wrapping_add(1) || y == x.wrapping_add(1)) {
                    clash_pairs.insert((f1.min(t1), f1.max(t1)));
                }
            }
        }
    }
    if !clash_pairs.is_empty() { labels.insert("opposite_ids_adjacent"); }
    // --- the limit. A connection certainly occupies a slot from the instant its call returned Ok until the
    // application dropped both halves or its task ended, whichever is first (task ends are reported by the
    // observer hook as (remote, send id); an ambiguous match picks the earliest, which only shortens the interval)
    let end_of = |remote: std::net::SocketAddr, send_id: Option<u16>, from_t: u64| -> u64 {
        let Some(id) = send_id else { return from_t };
        res.conn_events.iter().filter(|e| (e.kind == "vsock-end" || e.kind == "vsock-drop") && e.id == id && e.remote == remote.to_string() && e.t_us >= from_t).map(|e| e.t_us).min().unwrap_or(u64::MAX)
    };
    let conn_iv = |ci: usize| -> Option<(u64, u64)> {
        if let CallOut::Ok(t) = res.conns[ci].out {
            let c = &case.conns[ci];
            let e = end_of(res.addrs[c.to], syn_of.get(&ci).map(|x| x.0.wrapping_add(1)), t);
            Some((t, e.min(res.conns[ci].stream.closed_at_us.unwrap_or(u64::MAX))))
        } else { None }
    };
    let acc_iv = |k: usize| -> Option<(u64, u64, usize)> {
        let a = &res.accs[k];
        if let (CallOut::Ok(t), Some(ci)) = (&a.out, a.token) {
            let c = &case.conns[ci];
            let e = end_of(res.addrs[c.from], syn_of.get(&ci).map(|x| x.0), *t);
            Some((*t, e.min(a.stream.closed_at_us.unwrap_or(u64::MAX)), case.accepts[k].sock))
        } else { None }
    };
    let mut max_live = vec![0usize; case.socks.len()];
    {
        let mut ev: Vec<(u64, i32, usize)> = vec![]; // (t, -1 before +1 at one instant, socket)
        for ci in 0..res.conns.len() {
            if let Some((t, e)) = conn_iv(ci) {
                if e > t { ev.push((t, 1, case.conns[ci].from)); ev.push((e, -1, case.conns[ci].from)); }
            }
        }
        for k in 0..res.accs.len() {
            if let Some((t, e, s)) = acc_iv(k) {
                if e > t { ev.push((t, 1, s)); ev.push((e, -1, s)); }
            }
        }
        ev.sort();
        let mut live = vec![0i64; case.socks.len()];
        for (t, d, s) in ev {
            live[s] += d as i64;
            max_live[s] = max_live[s].max(live[s].max(0) as usize);
            if live[s] > case.socks[s].max_live as i64 {
                viol!("limit-exceeded", "socket {s}: {} connections are established and neither ended nor let go by the application at t={t} us, the configured limit is {}", live[s], case.socks[s].max_live);
            }
        }
    }
    for s in 0..case.socks.len() {
        if max_live[s] == case.socks[s].max_live as usize { labels.insert("limit_reached"); }
        if max_live[s] >= 3 { labels.insert("three_or_more_live"); }
    }
    // --- connection ids between one address pair are unique: at every socket, two endpoints that are live at the
    // same time and talk to the same remote address never receive on the same id.
    // (connector of a SYN with id X receives on X, the acceptor on X+1)
    {
        struct Ep { sock: usize, remote: usize, recv_id: u16, iv: (u64, u64), what: String }
        let mut eps: Vec<Ep> = vec![];
        for (&ci, &(x, _)) in &syn_of {
            let c = &case.conns[ci];
            if let Some(iv) = conn_iv(ci) {
                eps.push(Ep { sock: c.from, remote: c.to, recv_id: x, iv, what: format!("connect #{ci} (connector end)") });
            }
            if let Some(ks) = by_token.get(&ci) {
                if let Some((t, e, s)) = acc_iv(ks[0]) {
                    eps.push(Ep { sock: s, remote: c.from, recv_id: x.wrapping_add(1), iv: (t, e), what: format!("connect #{ci} (acceptor end, accept #{})", ks[0]) });
                }
            }
        }
        for i in 0..eps.len() {
            for j in i + 1..eps.len() {
                let (a, b) = (&eps[i], &eps[j]);
                if a.sock != b.sock || a.remote != b.remote { continue; }
                labels.insert("same_pair_twice");
                if a.iv.0 >= b.iv.1 || b.iv.0 >= a.iv.1 { continue; }
                labels.insert("same_pair_simultaneous");
                if a.recv_id == b.recv_id {
                    viol!("recv-id-shared", "socket {}: {} and {} are live at the same time (t={}..{} us and t={}..{} us), talk to socket {} and both receive on connection id {}", a.sock, a.what, b.what, a.iv.0, a.iv.1, b.iv.0, b.iv.1, a.remote, a.recv_id);
                }
            }
        }
        if case.conns.iter().any(|a| case.conns.iter().any(|b| a.from == b.to && a.to == b.from)) { labels.insert("both_directions"); }
    }
    // --- established connections are not disturbed by whatever else happens (loss-free network: each one
    // completes its exchange), and attempts that are certainly admissible succeed
    if loss_free {
        for (ci, ks) in &by_token {
            let c = &res.conns[*ci];
            let a = &res.accs[ks[0]];
            if c.stream.complete_at_us.is_none() || a.stream.complete_at_us.is_none() {
                viol!("exchange-incomplete", "connect #{ci} was established and identified by its token, the network loses nothing, yet the exchange did not complete (connector read {}/{} err {:?} / {:?}, acceptor read {}/{} err {:?} / {:?})", c.stream.read_ok, case.conns[*ci].n_b, c.stream.read_err, c.stream.write_err, a.stream.read_ok, case.conns[*ci].n_a, a.stream.read_err, a.stream.write_err);
            }
        }
        // certainly admissible: over the whole run each socket is involved in no more connections than its limit,
        // and no more than 4 connects go from one socket to one address
        let involved = |s: usize| case.conns.iter().filter(|c| c.from == s || c.to == s).count();
        let admissible = (0..case.socks.len()).all(|s| involved(s) <= case.socks[s].max_live as usize)
            && (0..case.socks.len()).all(|s| (0..case.socks.len()).all(|d| case.conns.iter().filter(|c| c.from == s && c.to == d).count() <= 4));
        if admissible {
            labels.insert("all_admissible");
            for (ci, c) in res.conns.iter().enumerate() {
                // (how many connects one socket may have pending towards one address is an internal constant: a call
                // refused while another call to the same address was pending is not held against the implementation)
                if let CallOut::Err(t, e) = &c.out {
                    let me = &case.conns[ci];
                    let other_pending = res.conns.iter().enumerate().any(|(cj, o)| cj != ci && case.conns[cj].from == me.from && case.conns[cj].to == me.to && o.call_at_us <= *t && match &o.out { CallOut::Ok(x) | CallOut::Err(x, _) | CallOut::Abandoned(x) => *x >= c.call_at_us, _ => true });
                    if (e.contains("TooManyActiveConnections") || e.contains("too many")) && other_pending { labels.insert("refused_while_another_pending"); continue; }
                }
                if clash_pairs.contains(&(case.conns[ci].from.min(case.conns[ci].to), case.conns[ci].from.max(case.conns[ci].to))) { continue; }
                if !matches!(c.out, CallOut::Ok(_)) || !by_token.contains_key(&ci) {
                    viol!("admissible-connect-failed", "connect #{ci} ended as {:?} (token delivered: {}) although no socket ever has more connections than its limit and the network loses nothing", c.out, by_token.contains_key(&ci));
                }
            }
        } else {
            labels.insert("over_limit_or_slots");
        }
    }
    if res.conns.iter().any(|c| matches!(c.out, CallOut::Abandoned(_))) { labels.insert("connect_waited_and_abandoned"); }
    if res.accs.iter().any(|a| matches!(a.out, CallOut::Abandoned(_))) { labels.insert("accept_given_up_early"); }
    if !loss_free { labels.insert("lossy"); }
    let established = by_token.len();
    if established >= 4 { labels.insert("four_or_more_established"); }
    out.labels = labels.iter().copied().collect();
    out.nontrivial = established >= 2;
    let mut fp = Fp::default();
    for c in &res.conns { fp.add(match &c.out { CallOut::Ok(t) => *t, CallOut::Err(t, _) => *t ^ 1, CallOut::Abandoned(t) => *t ^ 2, _ => 3 }); fp.add(c.stream.read_ok); }
    for a in &res.accs { fp.add(a.token.map(|t| t as u64 + 1).unwrap_or(0)); }
    fp.add(res.log.len() as u64);
    out.fingerprint = fp.get();
    out
}

pub struct Mc;
impl CheckDef for Mc {
    type Case = Case;
    const NAME: &'static str = "mc";
    fn strategy(tier: Tier) -> BoxedStrategy<Case> {
        strategy(tier)
    }
    fn run(case: &Case, trace: bool) -> Outcome {
        // lossy runs can meet known finding F7 (a delivered probe re-cut after its ACK was lost), which corrupts
        // a stream by itself: excluded by the same counted network guard as in C01, and never blamed here
        let res = mc::run_with(case, trace, |net| crate::props::c01::install_f7_guard(net));
        let mut out = oracle(case, &res);
        out.excluded_by_known_finding = res.excluded;
        if let Verdict::Violation { signature, .. } = &out.verdict {
            if signature == "foreign-bytes" || signature == "exchange-incomplete" {
                for a in &res.addrs {
                    for b in &res.addrs {
                        if a != b && crate::props::c01::f7_signature(&res.log, *a, *b).is_some() {
                            return Outcome::discard("F7 (probe re-cut) occurred in this run (reported by C01)");
                        }
                    }
                }
            }
        }
        out
    }
}

pub fn run(ctx: &mut Ctx) {
    ctx.rule("MC: 2..4 sockets with limits 1..64, up to 14 (quick) / 24 (thorough) connect calls in both directions and several to the same peer at clustered instants, accept calls per socket (in 30 % of the sockets preceded by one or two calls that are given up 1..40 ms later, before anything arrives), colliding initial sequence numbers and adjacent initial connection ids, loss-free or fair-lossy (k=1, reordering/duplication) network. Every connector writes a token naming its call and a keyed payload, the acceptor answers with the reverse keyed payload. Oracle: every byte a stream yields belongs to its own connection (token, both payloads, nothing extra), no token twice, the number of streams the application holds never exceeds the limit, simultaneously held connections of one address pair use distinct ids, connect calls end as Ok / refused / abandoned; loss-free: identified connections complete their exchange whatever else happens and certainly admissible attempts succeed. non-trivial = at least 2 connections established; distinct by hash of outcomes");
    ctx.assume("connect calls are abandoned by the application after 6 s; 'held' = from the call's Ok until the application dropped both halves (a lower bound of the library's own live count)");
    ctx.replay_corpus::<Mc>();
    ctx.run_generated::<Mc>(ctx.tier.pick(60_000, 3_000_000));
}

pub fn replay(v: &Value) -> Option<i32> {
    replay_file::<Mc>("C12", v)
}
