//! C08 — Every connection terminates, frees its slot, and is silent afterwards (E2E).
use std::collections::BTreeSet;

use proptest::prelude::*;
use serde::{Deserialize, Serialize};
use serde_json::Value;

use crate::engine::*;
use crate::model::refparse;
use crate::props::gens;
use crate::sim::{
    Family, Fate, NetPlan, SockCfg,
    app::{AppEv, ROp, WOp},
    e2e::{self, ConnPlan, Event, RunResult, Scenario},
};

#[derive(Clone, Debug, Serialize, Deserialize)]
pub struct Case {
    pub sc: Scenario,
    pub cycles: u8,
    pub limit: u8,
    /// virtual ms between cycles (>= T_end)
    pub cycle_ms: u32,
    pub cancel: Option<(u8, u32)>,
}

const T_END_MS: u32 = 10_000 + 70_000 + 2_000;
/// application-level patience of a script that waits for EOF
const APP_PATIENCE_MS: u32 = 30_000; // inactivity + backed-off RTOs (generous) + 2 s

#[derive(Clone, Debug)]
enum Close {
    DropBoth,
    ShutdownThenDrop,
    ReaderFirst,
    WaitEofThenDrop,
    WriterOnlyThenLater,
}

fn side_scripts(n: u32, close: &Close, linger: u32) -> (Vec<WOp>, Vec<ROp>) {
    let w0 = if n > 0 { vec![WOp::Write { n, chunk: 4096 }] } else { vec![] };
    match close {
        Close::DropBoth => ([w0, vec![WOp::Sleep(linger), WOp::Drop]].concat(), vec![ROp::Sleep(linger), ROp::Drop]),
        Close::ShutdownThenDrop => ([w0, vec![WOp::ShutdownFor(APP_PATIENCE_MS), WOp::Drop]].concat(), vec![ROp::ReadToEndFor { buf: 4096, ms: APP_PATIENCE_MS }, ROp::Drop]),
        Close::ReaderFirst => ([w0, vec![WOp::Sleep(linger + 50), WOp::Drop]].concat(), vec![ROp::Drop]),
        Close::WaitEofThenDrop => ([w0, vec![WOp::WaitOwnReader, WOp::Drop]].concat(), vec![ROp::ReadToEndFor { buf: 4096, ms: APP_PATIENCE_MS }, ROp::Drop]),
        Close::WriterOnlyThenLater => ([w0, vec![WOp::Drop]].concat(), vec![ROp::Sleep(linger + 2000), ROp::Drop]),
    }
}

fn close_kind() -> impl Strategy<Value = Close> {
    prop_oneof![Just(Close::DropBoth), Just(Close::ShutdownThenDrop), Just(Close::ReaderFirst), Just(Close::WaitEofThenDrop), Just(Close::WriterOnlyThenLater)]
}

fn strategy(tier: Tier) -> BoxedStrategy<Case> {
    let max_cycles = tier.pick(3u8, 5);
    (any::<bool>(), 1u8..5, 2u8..=max_cycles, prop::bool::weighted(0.2), prop::bool::weighted(0.6))
        .prop_flat_map(move |(v6, limit, cycles, with_cancel, lossy)| {
            let nconn = limit as usize * cycles as usize;
            (
                gens::rnd_stream(), gens::rnd_stream(), prop::bool::weighted(0.7), prop::bool::weighted(0.7),
                prop::collection::vec((close_kind(), close_kind(), 0u32..3000, 0u32..3000, 0u32..400, any::<u64>()), nconn..=nconn),
                (1u16..80),
                // closing datagrams are lost freely: this is a safety property ("under any network behaviour")
                if lossy { prop::collection::vec(prop_oneof![3 => Just(Fate::Deliver), 2 => Just(Fate::Drop), 1 => (1u16..300).prop_map(Fate::Delay), 1 => (0u16..200).prop_map(Fate::Dup)], 0..400).boxed() } else { Just(vec![]).boxed() },
                prop::collection::vec(any::<u16>(), 0..6),
                (0u8..2, 0u32..100_000),
                // chatter: old datagrams keep arriving at short intervals while the connections are closing
                prop::option::weighted(0.35, (0u32..3000, prop_oneof![1 => 10usize..80, 1 => 80usize..250], 100u32..950, any::<u16>())),
                // outage: once a cycle's connections are established the path dies (both directions or one) at a
                // generated instant of the closing phase and stays dead until shortly before the next cycle — the
                // peer's FIN, or the acknowledgement of one's own, never arrives, however often it is repeated
                prop::option::weighted(0.3, (0u8..3, prop_oneof![2 => 0u32..400, 2 => 400u32..4000, 1 => 4000u32..30_000])),
            )
                .prop_map(move |(rnd0, rnd1, wl0, wl1, conns, lat, fates, replays, (csock, cat), chatter, outage)| {
                    let mk = |rnd: Vec<u16>, wl: bool| SockCfg { v6, rnd, max_live: limit as u16, wait_lastack: wl, inactivity_ms: 10_000, max_retx: 5, ..SockCfg::default() };
                    let socks = vec![mk(rnd0, wl0), mk(rnd1, wl1)];
                    let cycle_ms = APP_PATIENCE_MS + T_END_MS + 20_000;
                    let mut plans = vec![];
                    for (i, (ca, cb, na, nb, linger, key)) in conns.into_iter().enumerate() {
                        let cycle = (i / limit as usize) as u32;
                        let (a_w, a_r) = side_scripts(na.max(1), &ca, linger);
                        let (b_w, b_r) = side_scripts(nb, &cb, linger);
                        plans.push(ConnPlan { from: 0, to: 1, // (one connect at a time: how many connects may be pending towards one address is an internal constant)
                            start_ms: cycle * cycle_ms + (i % limit as usize) as u32 * (2 * lat as u32 + 20), key, a_w, a_r, b_w, b_r });
                    }
                    let total_ms = cycles as u32 * cycle_ms;
                    let mut events: Vec<(u32, Event)> = vec![];
                    // stale traffic: old datagrams replayed well after each cycle's connections ended
                    for (j, f) in replays.iter().enumerate() {
                        let cyc = (j as u32 % cycles as u32) + 1;
                        events.push((cyc * cycle_ms - 10_000 + j as u32 * 7, Event::ReplayOld(*f)));
                    }
                    if let Some((start, n, every, f0)) = chatter {
                        for cyc in 0..cycles as u32 {
                            for j in 0..n as u32 {
                                let f = f0.wrapping_mul(j as u16 + 1).wrapping_add((j as u16).wrapping_mul(7919));
                                events.push((cyc * cycle_ms + start + j * every, match f0 % 4 { 0 => Event::ReplayOld(f), 1 => Event::ReplayRecent(f), k => Event::ReplayTo { sock: (k - 2) as usize, f } }));
                            }
                        }
                    }
                    if let Some((kind, at)) = outage {
                        for cyc in 0..cycles as u32 {
                            let established_by = (limit as u32 - 1) * (2 * lat as u32 + 20) + 3 * lat as u32 + 100;
                            let (t0, t1) = (cyc * cycle_ms + established_by + at, (cyc + 1) * cycle_ms - 3_000);
                            match kind {
                                0 => { events.push((t0, Event::Cut)); events.push((t1, Event::Heal)); }
                                k => {
                                    let (from, to) = if k == 1 { (0, 1) } else { (1, 0) };
                                    events.push((t0, Event::CutDir { from, to }));
                                    events.push((t1, Event::HealDir { from, to }));
                                }
                            }
                        }
                    }
                    let cancel = if with_cancel { Some((csock, cat % total_ms)) } else { None };
                    // with a cancellation: the applications of the connections open at that moment go on using their
                    // write halves afterwards (a later write, then a flush) — "all stream halves then report errors"
                    if let Some((_, t)) = cancel {
                        for p in plans.iter_mut() {
                            if p.start_ms <= t && t < p.start_ms + 4_000 && (p.key & 1) == 0 {
                                let late = t - p.start_ms + 40 + (p.key % 500) as u32;
                                let n0 = p.a_w.iter().find_map(|o| if let WOp::Write { n, .. } = o { Some(*n) } else { None }).unwrap_or(1);
                                p.a_w = vec![WOp::Write { n: n0, chunk: 4096 }, WOp::Sleep(late), WOp::Write { n: 5, chunk: 4096 }, WOp::Flush, WOp::Drop];
                                p.a_r = vec![ROp::Sleep(late + 100), ROp::Drop];
                                let n1 = p.b_w.iter().find_map(|o| if let WOp::Write { n, .. } = o { Some(*n) } else { None }).unwrap_or(0);
                                p.b_w = vec![WOp::Write { n: n1.max(1), chunk: 4096 }, WOp::Sleep(late), WOp::Write { n: 5, chunk: 4096 }, WOp::Flush, WOp::Drop];
                                p.b_r = vec![ROp::Sleep(late + 100), ROp::Drop];
                            }
                        }
                    }
                    if let Some((s, t)) = cancel { events.push((t, Event::CancelSocket(s as usize))); }
                    let sc = Scenario {
                        socks,
                        conns: plans,
                        net: NetPlan { family: if fates.is_empty() { Family::LossFree } else { Family::FairLossy { k: 3 } }, lat_ms: (lat, lat), path_mtu: (None, None), fates, cut_at: None },
                        events,
                        deadline_ms: total_ms + 5_000,
                        linger_ms: APP_PATIENCE_MS + T_END_MS + 60_000,
                    };
                    Case { sc, cycles, limit, cycle_ms, cancel }
                })
        })
        .boxed()
}

pub fn oracle(case: &Case, res: &RunResult) -> Outcome {
    let sc = &case.sc;
    let mut out = Outcome::pass();
    let mut labels: BTreeSet<&'static str> = BTreeSet::new();
    macro_rules! viol {
        ($sig:expr, $($arg:tt)*) => { return Outcome { verdict: Verdict::Violation { signature: $sig.to_string(), detail: format!($($arg)*) }, ..out } };
    }
    let cancel_t = case.cancel.map(|(_, t)| t as u64 * 1000);
    let cancelled_sock = case.cancel.map(|(s, _)| s as usize);
    // (c) slots are released: every connection of every cycle is established (the limit admits `limit` at a time and
    // all earlier ones have ended by then) — unless the socket was cancelled before
    for (ci, c) in res.conns.iter().enumerate() {
        let start_us = sc.conns[ci].start_ms as u64 * 1000;
        let after_cancel = cancel_t.is_some_and(|t| start_us + 2_000_000 >= t);
        if after_cancel { continue; }
        if let Some(e) = &c.connect_err {
            viol!("slot-not-released", "connection {ci} (cycle {}, limit {}) could not be opened: {} — the connections of the previous cycles had {} ms to end", ci / case.limit as usize, case.limit, e, case.cycle_ms);
        }
        if !c.ep[0].established || !c.ep[1].established {
            viol!("slot-not-released", "connection {ci} (cycle {}, limit {}) was not established (connector {}, acceptor {}) although earlier connections had {} ms to end", ci / case.limit as usize, case.limit, c.ep[0].established, c.ep[1].established, case.cycle_ms);
        }
        if ci >= case.limit as usize { labels.insert("slot_reused"); }
    }
    // per connection endpoint (incarnation = from its SYN to the next SYN that reuses the id): end event, then silence
    let ends: Vec<&crate::sim::ConnEvent> = res.conn_events.iter().filter(|e| e.kind == "vsock-end" || e.kind == "vsock-drop").collect();
    let mut syns: Vec<(u64, usize, u16)> = vec![]; // (t, connector socket, SYN id)
    for r in &res.log {
        if !r.from_stack { continue; }
        let Some(p) = &r.pkt else { continue };
        if p.ptype != refparse::ST_SYN { continue; }
        let si = res.addrs.iter().position(|a| *a == r.src).unwrap_or(0);
        if syns.iter().any(|(t, s, id)| *s == si && *id == p.conn_id && r.t_us - *t < 60_000_000) { continue; }
        syns.push((r.t_us, si, p.conn_id));
    }
    for (k, &(ts, si, x)) in syns.iter().enumerate() {
        let until = syns.iter().skip(k + 1).filter(|(_, s, id)| *s == si && *id == x).map(|(t, _, _)| *t).next().unwrap_or(u64::MAX);
        for (sock, id) in [(si, x.wrapping_add(1)), (1 - si, x)] {
            let a = res.addrs[sock];
            let other = res.addrs[1 - sock];
            let sent_any = res.log.iter().any(|r| r.src == a && r.from_stack && r.t_us >= ts && r.t_us < until && r.pkt.as_ref().is_some_and(|p| p.conn_id == id && p.ptype != refparse::ST_SYN && p.ptype != refparse::ST_RESET));
            if !sent_any { continue; }
            let end = ends.iter().filter(|e| e.id == id && e.remote == other.to_string() && e.t_us >= ts && e.t_us < until).map(|e| e.t_us).min();
            // (a) bounded time: T_end after the application let go of both halves of this endpoint
            // (plan k is the k-th SYN: connects are issued in plan order from socket 0 and SYNs are never lost)
            let side = if sock == si { 0 } else { 1 };
            let letgo = res.conns.get(k).filter(|_| si == 0).and_then(|c| {
                let w = c.ep[side].recs.iter().find(|r| matches!(r.ev, AppEv::WriterDropped)).map(|r| r.t_us);
                let rd = c.ep[side].recs.iter().find(|r| matches!(r.ev, AppEv::ReaderDropped)).map(|r| r.t_us);
                match (w, rd) { (Some(a), Some(b)) => Some(a.max(b)), _ => None }
            });
            if let (Some(lg), Some(te)) = (letgo, end) {
                if te > lg + T_END_MS as u64 * 1000 {
                    viol!("end-too-late", "socket {sock}: connection id {id}: both halves were dropped by t={lg} us but the task ended only at t={te} us (> T_end = {} ms later)", T_END_MS);
                }
                if te > lg { labels.insert("ended_after_letgo"); } else { labels.insert("ended_before_letgo"); }
                // (observation only, see DESIGN O10: an endpoint may outlive "last datagram + inactivity limit": dropping the
                // halves while data is queued behind a closed window wakes nobody, the task notices at the next 5 s tracing
                // tick of spawn_utils::spawn and arms its timer then. Later than the configured limit, but bounded: not a
                // violation of C08 — counted as a label)
                let recv_id = if sock == si { x } else { x.wrapping_add(1) };
                let last_rx = res.log.iter().filter(|r| r.dst == a && r.pkt.as_ref().is_some_and(|p| p.conn_id == recv_id || (p.ptype == refparse::ST_SYN && p.conn_id.wrapping_add(1) == recv_id)))
                    .flat_map(|r| match &r.disp { crate::sim::Disposition::Deliver(ts) => ts.clone(), _ => vec![] }).filter(|t| *t >= ts && *t < te).max().unwrap_or(ts);
                let limit_us = sc.socks[sock].inactivity_ms as u64 * 1000;
                if te > lg.max(last_rx) + limit_us + 1_500_000 { labels.insert("ended_later_than_last_datagram_plus_inactivity_limit"); }
                if te > lg.max(last_rx) + 900_000 { labels.insert("ended_by_inactivity_or_final_chance"); }
            }
            match end {
                None => viol!("no-end-event", "socket {sock}: the connection sending with id {id} (SYN at t={ts} us) never reported the end of its task{}", letgo.map(|l| format!("; the application dropped both halves by t={l} us and the run ended at t={} us", res.t_end_us)).unwrap_or_default()),
                Some(te) => {
                    if let Some(r) = res.log.iter().find(|r| r.src == a && r.from_stack && r.t_us > te && r.t_us < until && r.pkt.as_ref().is_some_and(|p| p.conn_id == id && p.ptype != refparse::ST_SYN && p.ptype != refparse::ST_RESET)) {
                        viol!("emission-after-end", "socket {sock}: log #{} carries connection id {id} at t={} us although that connection's task ended at t={te} us", r.idx, r.t_us);
                    }
                    labels.insert("ended_then_silent");
                }
            }
        }
    }
    // (a) every connection task has ended by the end (the run lingers T_end + 60 s after the last script)
    let expected_alive = sc.socks.len() as i64 - cancelled_sock.map(|_| 1).unwrap_or(0);
    if res.lib_tasks_at_end != expected_alive {
        viol!("task-still-alive", "{} library tasks are alive at the end (t={} us), expected {} (one dispatcher per live socket): some connection task never ended", res.lib_tasks_at_end, res.t_end_us, expected_alive);
    }
    // bounded time: each connection's endpoints end within T_end of the moment the application let go / it failed.
    // Conservative form: all of a cycle's connections ended before the next cycle starts (checked via slots above) and
    // everything has ended T_end after the last application action (checked via the alive-task count).
    // (d) cancellation: the socket's tasks end at that instant, nothing is emitted afterwards, halves report errors
    if let (Some(s), Some(t)) = (cancelled_sock, cancel_t) {
        let a = res.addrs[s];
        if let Some(r) = res.log.iter().find(|r| r.src == a && r.from_stack && r.t_us > t + 25_000) {
            viol!("emission-after-cancel", "socket {s} was cancelled at t={t} us but emitted log #{} at t={} us", r.idx, r.t_us);
        }
        // drop events of that socket's live connections happen promptly (the harness applies the event within 20 ms)
        let late = res.conn_events.iter().find(|e| e.kind == "vsock-drop" && e.remote == res.addrs[1 - s].to_string() && e.t_us > t + 25_000 && e.t_us < t + 1_000_000_000 && {
            // belongs to the cancelled socket: its id is one this socket sends with
            res.log.iter().any(|r| r.src == a && r.pkt.as_ref().is_some_and(|p| p.conn_id == e.id))
        } && !ends.iter().any(|x| x.kind == "vsock-end" && x.id == e.id && x.remote == e.remote));
        if let Some(e) = late {
            viol!("cancel-not-prompt", "socket {s} was cancelled at t={t} us but the task of connection id {} was only dropped at t={} us", e.id, e.t_us);
        }
        labels.insert("cancelled");
        // stream halves report errors: any operation completing after the cancel on that socket's side is an error
        for (ci, c) in res.conns.iter().enumerate() {
            let side = if sc.conns[ci].from == s { 0 } else { 1 };
            for r in &c.ep[side].recs {
                if r.t_us > t + 25_000 {
                    if let AppEv::Wrote(_) = r.ev { viol!("write-after-cancel", "connection {ci}: a write succeeded at t={} us after socket {s} was cancelled at t={t} us", r.t_us); }
                    if let AppEv::FlushOk = r.ev { if r.t_start_us > t + 25_000 { viol!("write-after-cancel", "connection {ci}: a flush called at t={} us returned Ok after socket {s} was cancelled at t={t} us", r.t_start_us); } }
                    labels.insert("operation_after_cancel");
                }
            }
        }
    }
    let lost_closing = res.log.iter().any(|r| matches!(r.disp, crate::sim::Disposition::Dropped("plan")) && r.pkt.as_ref().is_some_and(|p| p.ptype == refparse::ST_FIN || p.ptype == refparse::ST_STATE));
    if lost_closing { labels.insert("closing_datagram_lost"); }
    if sc.events.iter().any(|e| matches!(e.1, Event::ReplayOld(_) | Event::ReplayRecent(_) | Event::ReplayTo { .. })) { labels.insert("stale_replayed"); }
    if sc.events.iter().filter(|e| matches!(e.1, Event::ReplayOld(_) | Event::ReplayRecent(_) | Event::ReplayTo { .. })).count() >= 10 { labels.insert("chatter_while_closing"); }
    if sc.socks.iter().any(|s| !s.wait_lastack) { labels.insert("dont_wait_for_lastack"); }
    if sc.events.iter().any(|e| matches!(e.1, Event::Cut | Event::CutDir { .. })) { labels.insert("outage_while_closing"); }
    out.labels = labels.iter().copied().collect();
    out.nontrivial = lost_closing || case.cancel.is_some() || labels.contains("outage_while_closing");
    let mut fp = Fp::default();
    for r in &res.log { if let Some(p) = &r.pkt { fp.add(((p.ptype as u64) << 32) | ((r.src.port() as u64) << 16) | (r.t_us / 1000) % 9973); fp.add(matches!(r.disp, crate::sim::Disposition::Dropped(_)) as u64); } }
    out.fingerprint = fp.get();
    out
}

pub struct E2e;
impl CheckDef for E2e {
    type Case = Case;
    const NAME: &'static str = "e2e";
    fn strategy(tier: Tier) -> BoxedStrategy<Case> {
        strategy(tier)
    }
    fn run(case: &Case, trace: bool) -> Outcome {
        let res = e2e::run(&case.sc, trace);
        oracle(case, &res)
    }
}

pub fn run(ctx: &mut Ctx) {
    ctx.rule("E2E: cycles (2..3/5) of `limit` (1..4) connections on one socket pair with max_live_vsocks = limit; each side writes a little and lets go in a generated way (drop both halves, shutdown then drop, reader first, wait for EOF then drop, writer first); closing datagrams are dropped / delayed / duplicated freely; dont_wait_for_lastack both ways; old datagrams are replayed after the connections ended; in 30 % of the cases the path dies (both directions or one) at a generated instant of each cycle's closing phase until shortly before the next cycle; in 20 % of the cases a socket's cancellation token fires at a generated instant (the applications of half of the connections open at that moment write and flush again afterwards). Oracle: every connection of every later cycle is established (slots released within T_end = 82 s); at the end only the dispatchers are alive; each connection task reports its end (cfg-guarded observer hook) and nothing carrying its id is emitted afterwards, stale datagrams included; cancellation: nothing emitted 25 ms later, tasks dropped promptly, no write succeeds. non-trivial = a closing datagram lost or a cancel; distinct by hash of the wire-log shape");
    ctx.assume("end-of-task instants come from the crate's cfg-guarded observer hook; alive tasks from tokio's runtime metrics minus the harness's own task counter");
    ctx.replay_corpus::<E2e>();
    ctx.run_generated::<E2e>(ctx.tier.pick(16_000, 600_000));
}

pub fn replay(v: &Value) -> Option<i32> {
    replay_file::<E2e>("C08", v)
}
