//! C16 — Retransmission-timeout estimator stays within bounds (engine COMP).
use std::time::Duration;

use librqbit_utp::verif_hooks::RttEstimator;
use proptest::prelude::*;
use serde::{Deserialize, Serialize};
use serde_json::Value;

use crate::engine::*;
use crate::model::rto::{self, RtoModel};

#[derive(Clone, Debug, Serialize, Deserialize)]
pub enum Ev {
    Sample(u64), // ns
    Timeout,
}

#[derive(Clone, Debug, Serialize, Deserialize)]
pub struct Case {
    pub evs: Vec<Ev>,
}

fn rtt_ns() -> impl Strategy<Value = u64> {
    prop_oneof![
        // log-uniform 0 .. 2^44 ns (~4.9 h)
        6 => (0u32..45, any::<u64>()).prop_map(|(bits, m)| if bits == 0 { 0 } else { m & ((1u64 << bits) - 1) }),
        // boundary values
        2 => prop::sample::select(vec![
            0u64, 1, 999, 1_000, 1_000_000, 2_499_999, 2_500_000, 9_999_999, 10_000_000,
            40_000_000, 100_000_000, 199_999_999, 200_000_000, 200_000_001, 300_000_000,
            1_000_000_000, 30_000_000_000, 59_999_999_999, 60_000_000_000, 60_000_000_001,
            3_600_000_000_000, 36_000_000_000_000,
        ]),
        // realistic RTTs 1..500 ms
        2 => (1_000_000u64..500_000_000),
    ]
}

pub struct Comp;
impl CheckDef for Comp {
    type Case = Case;
    const NAME: &'static str = "comp";
    fn strategy(tier: Tier) -> BoxedStrategy<Case> {
        let max = tier.pick(120, 300);
        // blocks: single events, or a steady path — a run of (nearly) equal samples, during which the variance term
        // decays below the clock granularity (the floor of the variance term only matters there)
        let single = prop_oneof![3 => rtt_ns().prop_map(Ev::Sample), 1 => Just(Ev::Timeout)].prop_map(|e| vec![e]);
        let steady = (prop_oneof![2 => 150_000_000u64..2_000_000_000, 1 => 1_000_000u64..150_000_000, 1 => 2_000_000_000u64..70_000_000_000, 1 => 0u64..1_000_000], 4usize..90, prop_oneof![Just(0u64), 1u64..200_000, 200_000u64..3_000_000])
            // (timeouts also strike in the middle of a steady path: one step in sixteen, in half of the runs)
            .prop_flat_map(|(base, n, jitter)| (prop::collection::vec((0..=jitter, 0u8..16), n), any::<bool>()).prop_map(move |(js, with_to)| js.into_iter().map(|(j, t)| if with_to && t == 0 { Ev::Timeout } else { Ev::Sample(base + j) }).collect::<Vec<_>>()));
        prop::collection::vec(prop_oneof![12 => single, 1 => steady], 1..max)
            .prop_map(|blocks| Case { evs: blocks.into_iter().flatten().take(400).collect() })
            .boxed()
    }

    fn run(case: &Case, trace: bool) -> Outcome {
        const TOL: i128 = 128; // ns; integer-division order differs between model and code
        let mut est = RttEstimator::default();
        let mut m = RtoModel::default();
        let mut fp = Fp::default();
        let mut out = Outcome::pass();
        let (mut samples, mut timeout_then_sample, mut pending_timeout) = (0u32, false, false);
        let (mut cap, mut floor, mut gran, mut huge, mut same_estimate) = (false, false, false, false, false);
        let near = |a: u128, b: u128| (a as i128 - b as i128).abs() <= TOL;

        // the value before the first sample is not part of the property beyond its bounds: the model starts from it
        let init = est.retransmission_timeout().as_nanos();
        if !(rto::MIN_RTO..=rto::MAX_RTO).contains(&init) {
            return Outcome::violation("initial-rto", format!("the retransmission timeout before any sample is {init} ns, outside 200 ms..60 s"));
        }
        m.rto = init;
        for (i, ev) in case.evs.iter().enumerate() {
            let prev_rto = est.retransmission_timeout().as_nanos();
            match ev {
                Ev::Sample(ns) => {
                    est.sample(Duration::from_nanos(*ns));
                    let before = (m.srtt, m.rttvar);
                    m.sample(*ns as u128);
                    samples += 1;
                    if pending_timeout {
                        timeout_then_sample = true;
                        // the estimate itself may not move (converged path): the back-off must be undone all the same
                        if before == (m.srtt, m.rttvar) { same_estimate = true; }
                        pending_timeout = false;
                    }
                    if *ns > 60_000_000_000 {
                        huge = true;
                    }
                    let rto_now = est.retransmission_timeout().as_nanos();
                    let srtt = est.roundtrip_time().as_nanos();
                    if trace {
                        println!("#{i} sample {ns}ns -> rto={rto_now} srtt={srtt} | model rto={} srtt={:?} rttvar={}", m.rto, m.srtt, m.rttvar);
                    }
                    if !near(srtt, m.srtt.unwrap()) {
                        return Outcome::violation("srtt-mismatch", format!("step {i}: after sample {ns} ns smoothed RTT is {srtt} ns, RFC 6298 model says {} ns", m.srtt.unwrap()));
                    }
                    if !near(rto_now, m.rto) {
                        return Outcome::violation("rto-after-sample", format!("step {i}: after sample {ns} ns RTO is {rto_now} ns, expected clamp(srtt + max(4*rttvar, 10ms)) = {} ns (srtt {} rttvar {})", m.rto, m.srtt.unwrap(), m.rttvar));
                    }
                    let (lo, hi) = (m.min_sample.unwrap(), m.max_sample.unwrap());
                    if srtt + 1 < lo || srtt > hi + 1 {
                        return Outcome::violation("srtt-outside-samples", format!("step {i}: smoothed RTT {srtt} ns outside [min sample {lo}, max sample {hi}]"));
                    }
                    let raw = m.srtt.unwrap() + (4 * m.rttvar).max(rto::GRAN);
                    if raw > rto::MAX_RTO { cap = true; }
                    if raw < rto::MIN_RTO { floor = true; }
                    if 4 * m.rttvar < rto::GRAN { gran = true; }
                }
                Ev::Timeout => {
                    est.on_rto_timeout();
                    m.timeout();
                    pending_timeout = true;
                    let rto_now = est.retransmission_timeout().as_nanos();
                    if trace {
                        println!("#{i} timeout -> rto={rto_now} | model {}", m.rto);
                    }
                    let expect = (prev_rto * 2).min(rto::MAX_RTO).max(rto::MIN_RTO);
                    if !near(rto_now, expect) {
                        return Outcome::violation("backoff", format!("step {i}: timeout took RTO from {prev_rto} ns to {rto_now} ns, expected min(2x, 60 s) = {expect} ns"));
                    }
                    if expect == rto::MAX_RTO { cap = true; }
                }
            }
            let rto_now = est.retransmission_timeout().as_nanos();
            if !(rto::MIN_RTO..=rto::MAX_RTO).contains(&rto_now) {
                return Outcome::violation("rto-out-of-bounds", format!("step {i}: RTO {rto_now} ns outside [200 ms, 60 s]"));
            }
            fp.add(match ev { Ev::Sample(_) => 1, Ev::Timeout => 2 });
            fp.add((rto_now / 1_000_000) as u64);
        }
        out.nontrivial = samples >= 2 && timeout_then_sample;
        out.fingerprint = fp.get();
        if cap { out.labels.push("cap_reached"); }
        if floor { out.labels.push("floor_active"); }
        if gran { out.labels.push("granularity_term_active"); }
        if huge { out.labels.push("huge_sample"); }
        if timeout_then_sample { out.labels.push("timeout_then_sample"); }
        if same_estimate { out.labels.push("sample_after_timeout_leaves_estimate_unchanged"); }
        out
    }
}

pub fn run(ctx: &mut Ctx) {
    ctx.rule("COMP: sequences (1..N) of sample(rtt)/on_rto_timeout() on RttEstimator vs an integer-ns RFC 6298 model; rtt log-uniform 0 ns..4.9 h + boundary values + steady-path runs of 4..90 nearly equal samples (0..70 s) in half of which timeouts strike in the middle; non-trivial = >=2 samples and >=1 timeout followed by a sample; distinct by hash of (event kind, RTO in ms) sequence");
    ctx.assume("RFC 6298 constants as documented in rtte.rs: alpha 1/8, beta 1/4, K 4, G 10 ms, clamp 200 ms..60 s, initial 300 ms");
    ctx.assume("tolerance 128 ns for integer-division order");
    ctx.replay_corpus::<Comp>();
    ctx.run_generated::<Comp>(ctx.tier.pick(100_000, 5_000_000));
    ctx.check_floors("comp", &[
        Floor { label: "cap_reached", min_count: 50 },
        Floor { label: "floor_active", min_count: 50 },
        Floor { label: "granularity_term_active", min_count: 50 },
        Floor { label: "huge_sample", min_count: 50 },
    ]);
}

pub fn replay(v: &Value) -> Option<i32> {
    replay_file::<Comp>("C16", v)
}
