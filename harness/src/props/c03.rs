//! C03 — Honest completion: no silent truncation; success means acked; failures surface (E2E,
//! fault_enumeration over cut positions in the thorough tier).
use std::collections::BTreeSet;

use proptest::prelude::*;
use serde::{Deserialize, Serialize};
use serde_json::{Value, json};

use crate::engine::*;
use crate::model::refparse;
use crate::props::c01;
use crate::props::gens::{self, CfgRange};
use crate::sim::{
    Family, NetPlan,
    app::{AppEv, ROp, WOp},
    e2e::{self, ConnPlan, Event, RunResult, Scenario},
};

#[derive(Clone, Debug, Serialize, Deserialize)]
pub enum Fault {
    /// everything emitted from this fraction (x/65535) of the fault-free wire log on is lost
    CutAtFraction(u16),
    /// cut at an explicit emission index (fault enumeration)
    CutAtIndex(u32),
    /// the cancellation token of socket 0 / 1 is cancelled at this fraction of the fault-free duration
    Cancel { sock: u8, at: u16 },
    None,
}

#[derive(Clone, Debug, Serialize, Deserialize)]
pub struct Case {
    pub sc: Scenario,
    pub fault: Fault,
}

fn base_scenario(max_total: u32, lossy: bool) -> BoxedStrategy<Scenario> {
    any::<bool>()
        .prop_flat_map(move |v6| {
            let chunk = || prop_oneof![1 => 1u32..64, 2 => 64u32..2048, 2 => 2048u32..65536];
            // writer: writes with flushes in between, ends with shutdown / flush / nothing / drop
            let wscript = move || (prop::collection::vec((1u32..max_total / 3 + 2, chunk(), prop::bool::weighted(0.4), prop::option::weighted(0.2, 0u32..300)), 1..4), prop_oneof![3 => Just(Some(WOp::Shutdown)), 1 => Just(Some(WOp::Flush)), 1 => Just(Some(WOp::Drop)), 1 => Just(None)])
                .prop_map(|(parts, end)| {
                    let mut ops = vec![];
                    for (n, chunk, flush, sleep) in parts {
                        ops.push(WOp::Write { n, chunk });
                        if flush { ops.push(WOp::Flush); }
                        if let Some(ms) = sleep { ops.push(WOp::Sleep(ms)); }
                    }
                    if let Some(e) = end { ops.push(e); }
                    ops
                });
            (
                gens::sock_cfg(v6, CfgRange { min_rx_segments: 4, small_buffers: true }),
                gens::sock_cfg(v6, CfgRange { min_rx_segments: 4, small_buffers: true }),
                wscript(),
                wscript(),
                prop_oneof![1 => 1u32..64, 3 => 1024u32..65536],
                // reader pauses (a slow reader must still get everything a successful shutdown covered)
                (prop::option::weighted(0.3, (1u32..5000, 0u32..3000)), prop::option::weighted(0.3, (1u32..5000, 0u32..3000))),
                gens::latency(),
                if lossy { gens::fates_fair(400, 100) } else { Just(vec![]).boxed() },
                any::<u64>(),
            )
                .prop_map(move |(mut s0, mut s1, mut a_w, b_w, rbuf, (pa, pb), lat_ms, fates, key)| {
                    for s in [&mut s0, &mut s1] { s.inactivity_ms = 10_000; s.max_retx = 5; }
                    // the initiator's first byte completes the handshake for the acceptor
                    a_w.insert(0, WOp::Write { n: 1, chunk: 1 });
                    // bound the packet count with tiny MTUs
                    let cap = 300 * s0.min_payload().min(s1.min_payload()) as u32;
                    for w in a_w.iter_mut().chain(std::iter::empty()) { if let WOp::Write { n, .. } = w { *n = (*n).min(cap); } }
                    let mut b_w = b_w;
                    for w in b_w.iter_mut() { if let WOp::Write { n, .. } = w { *n = (*n).min(cap); } }
                    Scenario {
                        socks: vec![s0, s1],
                        // both readers keep reading until end-of-stream or an error
                        conns: vec![ConnPlan { from: 0, to: 1, start_ms: 0, key, a_w, a_r: rscript(pa, rbuf), b_w, b_r: rscript(pb, rbuf) }],
                        net: NetPlan { family: if lossy { Family::FairLossy { k: 1 } } else { Family::LossFree }, lat_ms, path_mtu: (None, None), fates, cut_at: None },
                        events: vec![],
                        deadline_ms: 400_000,
                        linger_ms: 0,
                    }
                })
        })
        .boxed()
}

fn rscript(pause: Option<(u32, u32)>, buf: u32) -> Vec<ROp> {
    match pause {
        Some((n, ms)) => vec![ROp::Read { n, buf }, ROp::Sleep(ms), ROp::ReadToEnd { buf }],
        None => vec![ROp::ReadToEnd { buf }],
    }
}

/// runs the case: a fault-free pass (to place the fault), then the faulted pass
pub fn run_case(case: &Case, trace: bool) -> (Scenario, RunResult, Option<u64>) {
    let base = e2e::run(&case.sc, false);
    let mut sc = case.sc.clone();
    let mut t_fault: Option<u64> = None;
    match &case.fault {
        Fault::None => {}
        Fault::CutAtFraction(f) => {
            let n = base.log.len();
            let i = pick_idx(*f, n + 1).min(n);
            sc.net.cut_at = Some(i as u32);
            t_fault = base.log.get(i).map(|r| r.t_us).or(Some(base.t_end_us));
        }
        Fault::CutAtIndex(i) => {
            sc.net.cut_at = Some(*i);
            t_fault = base.log.get(*i as usize).map(|r| r.t_us).or(Some(base.t_end_us));
        }
        Fault::Cancel { sock, at } => {
            let t_ms = (base.t_end_us / 1000) * (*at as u64) / 65535;
            sc.events.push((t_ms as u32, Event::CancelSocket((*sock % 2) as usize)));
            t_fault = Some(t_ms * 1000);
        }
    }
    let res = e2e::run(&sc, trace);
    (sc, res, t_fault)
}

pub fn oracle(sc: &Scenario, case: &Case, res: &RunResult, t_fault: Option<u64>) -> Outcome {
    let mut out = Outcome::pass();
    let mut labels: BTreeSet<&'static str> = BTreeSet::new();
    macro_rules! viol {
        ($sig:expr, $($arg:tt)*) => { return Outcome { verdict: Verdict::Violation { signature: $sig.to_string(), detail: format!($($arg)*) }, ..out } };
    }
    let c = &res.conns[0];
    if c.connect_err.is_some() || !c.ep[0].established || !c.ep[1].established {
        let mut o = Outcome::pass();
        o.labels.push("fault_before_established");
        return o;
    }
    // known finding F7 makes byte counts meaningless (bytes silently skipped): not C03's to report
    let (a, b) = (res.addrs[0], res.addrs[1]);
    if c01::f7_signature(&res.log, a, b).is_some() || c01::f7_signature(&res.log, b, a).is_some() {
        return Outcome::discard("F7 (probe re-cut) occurred in this run");
    }
    let inact_us = sc.socks[0].inactivity_ms as u64 * 1000;
    for side in 0..2 {
        let me = &c.ep[side];
        let peer = &c.ep[1 - side];
        let peer_keeps_reading = peer.reader_done; // ReadToEnd finished = EOF or error seen
        // (1) success means acked: every flush/shutdown that returned Ok with m bytes written => the peer application,
        // which keeps reading, obtains at least m bytes (whatever the network did afterwards)
        // (a peer whose own socket was cancelled has stopped by its own action: nothing is promised about what its
        // application still obtains)
        let peer_cancelled = matches!(case.fault, Fault::Cancel { sock, .. } if (sock % 2) as usize == 1 - side);
        for (t, m, is_shutdown) in &me.sync_points {
            if *m > peer.read && (peer_keeps_reading || res.scripts_done) && !peer_cancelled {
                viol!(if *is_shutdown { "shutdown-ok-but-bytes-missing" } else { "flush-ok-but-bytes-missing" }, "side {side}: {} returned Ok at t={} us after {} bytes had been written, but the peer application, which kept reading until {}, obtained only {} bytes", if *is_shutdown { "shutdown" } else { "flush" }, t, m, if peer.eof { "end-of-stream" } else { "an error" }, peer.read);
            }
            if t_fault.is_some_and(|tf| *t <= tf) { labels.insert("sync_point_before_fault"); }
            if *is_shutdown { labels.insert("shutdown_ok"); } else { labels.insert("flush_ok"); }
        }
        // (2) no silent truncation: clean end-of-stream with bytes missing while the writer was told its shutdown succeeded
        if peer.eof {
            if let Some((t, m, _)) = me.sync_points.iter().filter(|s| s.2).last() {
                if peer.read < *m && !peer_cancelled {
                    viol!("clean-eof-with-bytes-missing", "side {}: the reader saw a clean end-of-stream after {} bytes although the peer's shutdown had returned Ok (t={} us) for {} bytes", 1 - side, peer.read, t, m);
                }
            }
            labels.insert("eof_seen");
        }
        // reads never exceed writes and never deviate (C01's oracle, cheap to keep here)
        if peer.read > me.written { viol!("read-beyond-written", "side {}: read {} bytes, peer wrote {}", 1 - side, peer.read, me.written); }
    }
    // (3) failures surface within a bounded time
    if let Some(tf) = t_fault {
        let cancel = matches!(case.fault, Fault::Cancel { .. });
        for side in 0..2 {
            let me = &c.ep[side];
            // data outstanding at the fault: written but not acknowledged. Approximation from the wire: bytes of data
            // packets of this side first-transmitted or buffered whose acknowledgement was not delivered before the fault.
            let written_at_fault: u64 = me.recs.iter().filter(|r| r.t_us <= tf).map(|r| if let AppEv::Wrote(n) = r.ev { n as u64 } else { 0 }).sum();
            let acked_at_fault = acked_bytes_before(res, side, tf);
            let outstanding = written_at_fault > acked_at_fault;
            let cancelled_here = matches!(case.fault, Fault::Cancel { sock, .. } if (sock % 2) as usize == side);
            if outstanding { labels.insert("fault_with_data_outstanding"); }
            let t_abort = if cancelled_here { 1_000_000 } else { inact_us + 75_000_000 };
            let limit = tf + t_abort;
            if outstanding || cancelled_here {
                // every operation of this side's writer resolves by the limit, and nothing is accepted afterwards
                if !me.writer_done && res.t_end_us > limit {
                    let pending = me.recs.last().map(|r| format!("{:?}", r.ev)).unwrap_or_default();
                    // known finding F8 seen from this side: everything transmitted was acknowledged and the rest is
                    // held back by a closed / too small peer window; with the peer gone nothing ever re-opens it and
                    // no timer runs (there is no zero-window probe)
                    let transmitted = transmitted_bytes_before(res, side, u64::MAX);
                    if acked_bytes_before(res, side, u64::MAX) >= transmitted && me.written > transmitted {
                        viol!(F8_HANG_SIG, "side {side}: network cut at t={} us while {} accepted bytes were held back by the peer's window (everything transmitted had been acknowledged); no timer runs in that state: the writer operation is still pending at t={} us (last completed: {})", tf, me.written - transmitted, res.t_end_us, pending);
                    }
                    viol!("operation-hangs-after-abort", "side {side}: the connection was aborted at t={} us ({}), yet at t={} us a writer operation is still pending (last completed: {})", tf, if cancelled_here { "socket cancelled" } else { "network cut with data outstanding" }, res.t_end_us, pending);
                }
                if let Some(w) = me.recs.iter().find(|r| matches!(r.ev, AppEv::Wrote(_)) && r.t_us > limit) {
                    viol!("write-accepted-after-abort", "side {side}: a write was accepted at t={} us, long after the connection was aborted at t={} us", w.t_us, tf);
                }
                if cancelled_here {
                    // all stream halves report errors promptly
                    if !me.reader_done && res.t_end_us > limit {
                        viol!("read-hangs-after-cancel", "side {side}: socket cancelled at t={} us but the pending read had not resolved by t={} us", tf, res.t_end_us);
                    }
                    labels.insert("cancelled");
                }
            }
            if cancel { labels.insert("cancel_case"); }
        }
    }
    let fault_mid_fin = res.log.iter().any(|r| r.pkt.as_ref().is_some_and(|p| p.ptype == refparse::ST_FIN) && matches!(r.disp, crate::sim::Disposition::Dropped(_)));
    if fault_mid_fin { labels.insert("fin_lost"); }
    out.labels = labels.iter().copied().collect();
    out.nontrivial = labels.contains("fault_with_data_outstanding") || fault_mid_fin;
    let mut fp = Fp::default();
    for r in &res.log { if let Some(p) = &r.pkt { fp.add(((p.ptype as u64) << 32) | ((r.src.port() as u64) << 16) | p.payload.len() as u64); fp.add(matches!(r.disp, crate::sim::Disposition::Dropped(_)) as u64); } }
    for e in &c.ep { fp.add(e.read); fp.add(e.eof as u64 + 2 * e.read_err.is_some() as u64); }
    out.fingerprint = fp.get();
    out
}

pub const F8_HANG_SIG: &str = "C03/hang-at-closed-window-peer-gone";

fn transmitted_bytes_before(res: &RunResult, side: usize, t: u64) -> u64 {
    let me = res.addrs[side];
    let mut seen = BTreeSet::new();
    res.log.iter().filter(|r| r.src == me && r.t_us < t).filter_map(|r| r.pkt.as_ref()).filter(|p| p.ptype == refparse::ST_DATA && seen.insert(p.seq)).map(|p| p.payload.len() as u64).sum()
}

/// bytes of `side`'s data acknowledged by datagrams delivered to it before `t`
fn acked_bytes_before(res: &RunResult, side: usize, t: u64) -> u64 {
    let (me, peer) = if side == 0 { (res.addrs[0], res.addrs[1]) } else { (res.addrs[1], res.addrs[0]) };
    let mut lens: Vec<(u16, u64)> = vec![];
    let mut seen = BTreeSet::new();
    for r in &res.log {
        if r.src == me { if let Some(p) = &r.pkt { if p.ptype == refparse::ST_DATA && seen.insert(p.seq) { lens.push((p.seq, p.payload.len() as u64)); } } }
    }
    let Some(first) = lens.first().map(|x| x.0) else { return 0 };
    let mut best: i32 = -1;
    for r in &res.log {
        if r.src == peer && r.dst == me && r.first_delivery_us().is_some_and(|d| d < t) {
            if let Some(p) = &r.pkt { if p.ptype != refparse::ST_SYN { let d = crate::model::seq::dist(p.ack, first); if d > best && d < 30000 { best = d; } } }
        }
    }
    lens.iter().filter(|(s, _)| crate::model::seq::dist(*s, first) <= best).map(|(_, l)| *l).sum()
}

pub struct E2e;
impl CheckDef for E2e {
    type Case = Case;
    const NAME: &'static str = "e2e";
    fn strategy(tier: Tier) -> BoxedStrategy<Case> {
        let max_total = tier.pick(30_000u32, 120_000);
        (any::<bool>(), prop_oneof![6 => any::<u16>().prop_map(Fault::CutAtFraction), 2 => (0u8..2, any::<u16>()).prop_map(|(sock, at)| Fault::Cancel { sock, at }), 1 => Just(Fault::None)])
            .prop_flat_map(move |(lossy, fault)| base_scenario(max_total, lossy).prop_map(move |sc| Case { sc, fault: fault.clone() }))
            .boxed()
    }
    fn run(case: &Case, trace: bool) -> Outcome {
        let (sc, res, t_fault) = run_case(case, trace);
        oracle(&sc, case, &res, t_fault)
    }
}

/// thorough tier: for a number of base scenarios, enumerate *all* cut indices
fn enumerate_cuts(ctx: &mut Ctx, scenarios: usize) {
    use proptest::strategy::ValueTree;
    let mut runner = proptest::test_runner::TestRunner::new_with_rng(Default::default(), proptest::test_runner::TestRng::from_seed(proptest::test_runner::RngAlgorithm::ChaCha, &[ctx.seed as u8 ^ 0x3c; 32]));
    let strat = base_scenario(12_000, false);
    let bases: Vec<Scenario> = (0..scenarios).filter_map(|_| strat.new_tree(&mut runner).ok().map(|t| t.current())).collect();
    let results: Vec<(u64, BTreeSet<u64>, Option<(Case, String, String)>)> = std::thread::scope(|s| {
        let bases = &bases;
        let hs: Vec<_> = (0..SHARDS).map(|sh| s.spawn(move || {
            install_panic_hook();
            let mut evals = 0u64; let mut fps = BTreeSet::new(); let mut fail = None;
            for (bi, sc) in bases.iter().enumerate() {
                if bi % SHARDS != sh { continue; }
                let n = e2e::run(sc, false).log.len();
                for i in 0..=n {
                    let case = Case { sc: sc.clone(), fault: Fault::CutAtIndex(i as u32) };
                    let out = run_guarded::<E2e>(&case, false);
                    evals += 1;
                    match out.verdict {
                        Verdict::Violation { signature, detail } => { if fail.is_none() && findings().known("C03", &signature).is_none() { fail = Some((case, signature, detail)); } }
                        _ => { if out.nontrivial { fps.insert(out.fingerprint); } }
                    }
                }
            }
            (evals, fps, fail)
        })).collect();
        hs.into_iter().map(|h| h.join().unwrap()).collect()
    });
    let mut evals = 0; let mut fps = BTreeSet::new();
    for (e, f, fail) in results {
        evals += e; fps.extend(f);
        if let Some((case, sig, detail)) = fail { ctx.report_violation::<E2e>(&case, &sig, &detail); }
    }
    ctx.record_manual("cut-enumeration", evals, fps, [("base_scenarios", scenarios as u64)], vec![json!({"base": "generated loss-free transfer scenario", "fault": "CutAtIndex(i) for every i in 0..=len(wire log)"})], 0);
    ctx.extra("cut_enumeration_scenarios", json!(scenarios));
    ctx.extra("cut_enumeration_runs", json!(evals));
}

pub fn run(ctx: &mut Ctx) {
    ctx.rule("E2E: generated transfer scenarios (writes interleaved with flush, ending in shutdown / flush / drop / nothing; readers read until end-of-stream or error; loss-free or fair-lossy) with one fault: the network is cut from a generated emission index on (placed on the fault-free wire log of the same scenario), or a socket's cancellation token fires at a generated instant. Oracle: every flush/shutdown that returned Ok after m bytes => the peer application obtains >= m bytes; clean end-of-stream never with fewer bytes than a successful shutdown covered; after an abort with data outstanding (or a cancel) the writer's operations resolve within inactivity + 75 s (1 s for cancel) and nothing is accepted later. All cut indices of 24 (quick) / 400 (thorough) base scenarios are enumerated (fault_enumeration). non-trivial = fault while data was unacknowledged, or a FIN lost; distinct by hash of wire-log shape and read outcome");
    ctx.assume("in-flight datagrams emitted before the cut are still delivered; 'keeps reading' = ReadToEnd scripts");
    ctx.replay_corpus::<E2e>();
    ctx.run_generated::<E2e>(ctx.tier.pick(20_000, 600_000));
    // every cut position of the base scenarios is enumerated in both tiers (fewer scenarios in the quick one)
    ctx.set_level("fault_enumeration");
    enumerate_cuts(ctx, ctx.tier.pick(24, 400));
    crate::props::c03b::run(ctx);
}

pub fn replay(v: &Value) -> Option<i32> {
    replay_file::<E2e>("C03", v).or_else(|| crate::props::c03b::replay(v))
}
