//! C19 (sub-check "threads") — growing the transmit ring never loses, duplicates or reorders bytes while the writer
//! runs on another thread (engine COMP, real OS threads).
//!
//! The library is meant for a multi-threaded runtime: `UtpStreamWriteHalf::poll_write` runs on whatever thread the
//! application's task is on, `UserTx::grow` / `truncate_front` run on the connection task. The simulated engines are
//! single-threaded, so a growth step there never overlaps a write. Here the two halves are driven directly from two
//! threads: the generated part is the configuration (initial / maximum size), the write sizes and the connection
//! task's step list (grow, consume a fraction, pause); the interleaving is whatever the scheduler produces, and each
//! case is repeated to sample several. The oracle is schedule-independent: the bytes taken from the front of the ring
//! are exactly the keyed stream the writer's accepted writes consist of, in order, and the capacity never exceeds
//! the configured limit.
use std::num::NonZeroUsize;
use std::pin::Pin;
use std::sync::atomic::{AtomicBool, AtomicU64, Ordering};
use std::task::{Context, Poll, RawWaker, RawWakerVTable, Waker};
use std::time::{Duration, Instant};

use librqbit_utp::verif_hooks::{UserTx, UtpStreamWriteHalf};
use proptest::prelude::*;
use ringbuf::traits::{Consumer, Observer};
use serde::{Deserialize, Serialize};
use serde_json::Value;
use tokio::io::AsyncWrite;

use crate::engine::*;

#[derive(Clone, Debug, Serialize, Deserialize)]
pub enum DStep {
    /// what the connection task does when the ring is nearly full and the windows allow more
    Grow,
    /// acknowledged bytes leave the front: this many thousandths of what the ring holds
    Consume(u16),
    /// the connection task is busy elsewhere for about this many spin iterations
    Pause(u16),
}

#[derive(Clone, Debug, Serialize, Deserialize)]
pub struct Case {
    pub init: u32,
    pub max: u32,
    /// sizes of the application's write calls (cycled until `total` bytes are accepted)
    pub writes: Vec<u32>,
    pub total: u32,
    pub steps: Vec<DStep>,
    pub key: u64,
    /// how many times the case is run (each run samples another interleaving)
    pub reps: u16,
}

fn byte_at(key: u64, off: u64) -> u8 {
    (splitmix64(key ^ (off >> 3)) >> ((off & 7) * 8)) as u8
}

fn noop_waker() -> Waker {
    fn clone(_: *const ()) -> RawWaker { RawWaker::new(std::ptr::null(), &VT) }
    fn noop(_: *const ()) {}
    static VT: RawWakerVTable = RawWakerVTable::new(clone, noop, noop, noop);
    // SAFETY: the vtable functions ignore the data pointer
    unsafe { Waker::from_raw(RawWaker::new(std::ptr::null(), &VT)) }
}

pub enum RepResult {
    Ok { grows_overlapping_writes: u32, grows: u32 },
    Violation(String, String),
    Watchdog(String),
}

pub fn run_once(case: &Case, trace: bool) -> RepResult {
    let limit = case.init.max(case.max) as usize;
    let user_tx = UserTx::new(NonZeroUsize::new(case.init.max(1) as usize).unwrap());
    let max = NonZeroUsize::new(case.max.max(1) as usize).unwrap();
    let total = case.total as u64;
    let accepted = AtomicU64::new(0);
    let stop = AtomicBool::new(false);
    let writer_done = AtomicBool::new(false);
    let writer_err: std::sync::Mutex<Option<String>> = std::sync::Mutex::new(None);
    let t0 = Instant::now();
    let watchdog = Duration::from_secs(20);

    std::thread::scope(|sc| {
        let (utx, accepted_r, stop_r, done_r, err_r) = (user_tx.clone(), &accepted, &stop, &writer_done, &writer_err);
        let writes = &case.writes;
        let key = case.key;
        sc.spawn(move || {
            let mut w = UtpStreamWriteHalf::new(utx);
            let waker = noop_waker();
            let mut cx = Context::from_waker(&waker);
            let mut off = 0u64;
            let mut wi = 0usize;
            let mut buf: Vec<u8> = vec![];
            'outer: while off < total {
                let n = (writes[wi % writes.len()].max(1) as u64).min(total - off) as usize;
                wi += 1;
                buf.clear();
                buf.extend((0..n as u64).map(|i| byte_at(key, off + i)));
                let mut done = 0usize;
                while done < n {
                    if stop_r.load(Ordering::Relaxed) { break 'outer; }
                    match Pin::new(&mut w).poll_write(&mut cx, &buf[done..]) {
                        Poll::Ready(Ok(k)) => {
                            done += k;
                            off += k as u64;
                            accepted_r.store(off, Ordering::Release);
                        }
                        Poll::Ready(Err(e)) => { *err_r.lock().unwrap() = Some(e.to_string()); break 'outer; }
                        Poll::Pending => std::hint::spin_loop(),
                    }
                }
            }
            done_r.store(true, Ordering::Release);
            // the write half must stay alive until the connection side is finished: dropping it is a shutdown
            while !stop_r.load(Ordering::Relaxed) { std::thread::yield_now(); }
            drop(w);
        });

        // the connection task's side
        let mut consumed = 0u64;
        let (mut grows, mut overlapping) = (0u32, 0u32);
        let mut scratch: Vec<u8> = vec![];
        let mut si = 0usize;
        let res = loop {
            if t0.elapsed() > watchdog {
                break RepResult::Watchdog(format!("no completion within {watchdog:?}: accepted {} consumed {consumed} of {total}", accepted.load(Ordering::Acquire)));
            }
            if let Some(e) = writer_err.lock().unwrap().clone() {
                break RepResult::Violation("threads/write-error".into(), format!("poll_write failed although the connection is alive and the write half open: {e}"));
            }
            // after the step list the connection task simply keeps draining
            let step = if si < case.steps.len() { case.steps[si].clone() } else { DStep::Consume(1000) };
            si += 1;
            match step {
                DStep::Grow => {
                    let a0 = accepted.load(Ordering::Acquire);
                    let r = user_tx.grow(max);
                    let a1 = accepted.load(Ordering::Acquire);
                    if r.is_some() {
                        grows += 1;
                        if a1 != a0 { overlapping += 1; }
                        if trace { println!("grow -> {r:?} (accepted {a0} -> {a1}, consumed {consumed})"); }
                    }
                }
                DStep::Pause(n) => { for _ in 0..n { std::hint::spin_loop(); } }
                DStep::Consume(pm) => {
                    scratch.clear();
                    let cap;
                    {
                        let c = user_tx.consumer.lock();
                        let (a, b) = c.as_slices();
                        let have = a.len() + b.len();
                        let n = (have as u64 * pm.min(1000) as u64).div_ceil(1000) as usize;
                        scratch.extend(a.iter().chain(b.iter()).take(n));
                        cap = c.capacity().get();
                    }
                    if cap > limit {
                        break RepResult::Violation("threads/capacity-above-limit".into(), format!("ring capacity {cap} exceeds max(initial {}, maximum {}) = {limit}", case.init, case.max));
                    }
                    if let Some(i) = (0..scratch.len()).find(|&i| scratch[i] != byte_at(case.key, consumed + i as u64)) {
                        // describe what is there instead: a later part of the stream (loss), an earlier one (duplicate)?
                        let probe: Vec<u8> = scratch[i..].iter().take(8).copied().collect();
                        let acc = accepted.load(Ordering::Acquire);
                        let found = (0..acc.max(consumed + scratch.len() as u64 + 1)).find(|&o| probe.iter().enumerate().all(|(j, b)| byte_at(case.key, o + j as u64) == *b));
                        let what = match found {
                            Some(o) if o > consumed + i as u64 => format!("the ring continues with stream offset {o}: {} accepted bytes are missing", o - consumed - i as u64),
                            Some(o) => format!("the ring repeats stream offset {o}: bytes duplicated or reordered"),
                            None => "the bytes there match no part of the stream".into(),
                        };
                        break RepResult::Violation("threads/ring-content".into(), format!("after {grows} growth step(s) (initial {}, maximum {}) the byte at stream offset {} taken from the front of the ring is not what the writer's accepted writes contain; {what}", case.init, case.max, consumed + i as u64));
                    }
                    if !scratch.is_empty() {
                        if let Err(e) = user_tx.truncate_front(scratch.len()) {
                            break RepResult::Violation("threads/truncate-front".into(), format!("removing {} acknowledged bytes from the front failed: {e:?}", scratch.len()));
                        }
                        consumed += scratch.len() as u64;
                    }
                    if consumed == total { break RepResult::Ok { grows_overlapping_writes: overlapping, grows }; }
                    if scratch.is_empty() && writer_done.load(Ordering::Acquire) {
                        // the writer had all its bytes accepted, the ring is empty, and yet not all of them came out
                        let c = user_tx.consumer.lock();
                        if c.occupied_len() == 0 && accepted.load(Ordering::Acquire) > consumed {
                            break RepResult::Violation("threads/ring-content".into(), format!("write accepted {} bytes, {consumed} came out of the ring and it is empty: the tail of the stream vanished (after {grows} growth step(s), initial {}, maximum {})", accepted.load(Ordering::Acquire), case.init, case.max));
                        }
                    }
                }
            }
        };
        stop.store(true, Ordering::Relaxed);
        res
    })
}

pub struct Thr;
impl CheckDef for Thr {
    type Case = Case;
    const NAME: &'static str = "threads";
    const SCHEDULE_SAMPLED: bool = true;
    fn strategy(tier: Tier) -> BoxedStrategy<Case> {
        let max_steps = tier.pick(60usize, 160);
        (prop_oneof![2 => 16u32..2048, 3 => 2048u32..40_000, 1 => Just(32u32 * 1024)], 0u8..5, any::<u32>())
            .prop_flat_map(move |(init, kind, mx)| {
                let max = match kind {
                    0 => init,
                    1 => init * 2 + mx % 100,
                    2 => init.saturating_mul(8) + mx % 1000,
                    3 => init.saturating_mul(64).min(1 << 20),
                    _ => 1 << 20,
                };
                let step = prop_oneof![
                    4 => Just(DStep::Grow),
                    5 => prop_oneof![1 => Just(1000u16), 2 => 1u16..1000, 1 => 1u16..50].prop_map(DStep::Consume),
                    3 => prop_oneof![0u16..50, 50u16..2000, 2000u16..30_000].prop_map(DStep::Pause),
                ];
                let wsize = prop_oneof![1 => 1u32..64, 3 => 64u32..4096, 2 => 4096u32..100_000];
                (prop::collection::vec(step, 4..max_steps), prop::collection::vec(wsize, 1..8), any::<u64>(), 2u32..12, 3u16..10)
                    .prop_map(move |(steps, writes, key, mult, reps)| {
                        // enough bytes to pass through every growth step several times, bounded for cost
                        let total = (max.min(256 * 1024) * mult).clamp(4096, 1 << 21);
                        Case { init, max, writes, total, steps, key, reps }
                    })
            })
            .boxed()
    }

    fn run(case: &Case, trace: bool) -> Outcome {
        let mut out = Outcome::pass();
        // a replay samples many more interleavings than the search did
        let reps = if trace { case.reps as u32 * 100 } else { case.reps as u32 };
        let (mut grows_total, mut overlap_total) = (0u32, 0u32);
        for r in 0..reps {
            match run_once(case, trace && r == 0) {
                RepResult::Ok { grows_overlapping_writes, grows } => { grows_total += grows; overlap_total += grows_overlapping_writes; }
                RepResult::Violation(sig, detail) => {
                    return Outcome::violation(sig, format!("{detail} [run {} of {reps}; the interleaving of writer thread and connection task is not recorded: replay re-runs the case until it recurs]", r + 1));
                }
                RepResult::Watchdog(why) => return Outcome::discard(format!("watchdog: {why}")),
            }
        }
        if grows_total > 0 { out.labels.push("grew"); }
        if overlap_total > 0 { out.labels.push("write_accepted_during_growth"); }
        if case.max > case.init * 2 { out.labels.push("several_growth_steps"); }
        out.nontrivial = overlap_total > 0;
        let mut fp = Fp::default();
        fp.add(case.init as u64); fp.add(case.max as u64); fp.add(case.key); fp.add(case.steps.len() as u64);
        out.fingerprint = fp.get();
        out.stats.push(("growth_steps_overlapping_a_write", overlap_total as u64));
        out
    }
}

pub fn run(ctx: &mut Ctx) {
    ctx.rule("COMP threads: UserTx + UtpStreamWriteHalf driven from two OS threads — a writer thread polling poll_write as fast as it is accepted (write sizes 1 B..100 KB) and the connection task's side executing a generated step list (grow / take a fraction of the ring's content from the front / pause); initial size 16 B..40 KB, maximum = initial .. 1 MiB; every case is run 3..9 times to sample interleavings (the schedule is the operating system's, not generated). Oracle: bytes taken from the front are the writer's accepted stream, in order, nothing missing or repeated; capacity <= max(initial, maximum); truncate_front never fails. non-trivial = a write was accepted while a growth step was in progress; distinct by (sizes, key, step count)");
    ctx.assume("threads sub-check: interleavings are sampled by the scheduler, so a passing run is weaker evidence than for the simulated engines and a failing case is replayed by repetition (x100) rather than exactly");
    ctx.replay_corpus::<Thr>();
    ctx.run_generated::<Thr>(ctx.tier.pick(3_000, 120_000));
}

pub fn replay(v: &Value) -> Option<i32> {
    replay_file::<Thr>("C19", v)
}
