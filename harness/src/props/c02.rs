//! C02 — Progress: accepted bytes are eventually delivered; no stall or lost wake-up (E2E).
//! (a) fair-lossy liveness with a virtual deadline; (b) loss-free promptness.
use std::collections::BTreeSet;

use proptest::prelude::*;
use serde::{Deserialize, Serialize};
use serde_json::Value;

use crate::engine::*;
use crate::model::{refparse, seq::dist};
use crate::props::c01::{self, install_f7_guard};
use crate::props::gens::{self, CfgRange};
use crate::sim::{
    Disposition, Family, Net, NetPlan, SockCfg, WireRec,
    app::{AppEv, ROp, WOp},
    e2e::{self, ConnPlan, RunResult, Scenario},
};

pub const F27_SIG: &str = "C02/delivered-repeatedly-but-discarded";
pub const F8_SIG: &str = "C02/zero-window-reopen-lost";
pub const F11_SIG: &str = "C02/precut-segment-exceeds-window";

#[derive(Clone, Debug, Serialize, Deserialize)]
pub struct Case {
    pub sc: Scenario,
    #[serde(default)]
    pub no_guard: bool,
}

fn chunks() -> impl Strategy<Value = u32> {
    prop_oneof![1 => 1u32..64, 2 => 64u32..2048, 2 => 2048u32..65536]
}

/// writer: all bytes, with pauses; then flush. `total` is needed by the peer's reader.
fn writer(total: u32, parts: Vec<(u32, u32, Option<u32>, bool)>) -> Vec<WOp> {
    let wsum: u32 = parts.iter().map(|p| p.0).sum::<u32>().max(1);
    let mut ops = vec![];
    let mut left = total;
    let np = parts.len();
    for (i, (w, chunk, sleep, flush)) in parts.into_iter().enumerate() {
        let n = if i + 1 == np { left } else { ((total as u64 * w as u64) / wsum as u64) as u32 }.min(left);
        left -= n;
        if n > 0 { ops.push(WOp::Write { n, chunk }); }
        if flush { ops.push(WOp::Flush); }
        if let Some(ms) = sleep { ops.push(WOp::Sleep(ms)); }
    }
    ops.push(WOp::Flush);
    ops
}

fn sock_pair(v6: bool, min_rx_segments: u32) -> impl Strategy<Value = (SockCfg, SockCfg)> {
    (gens::sock_cfg(v6, CfgRange { min_rx_segments, small_buffers: true }), gens::sock_cfg(v6, CfgRange { min_rx_segments, small_buffers: true }))
}

// ------------------------------------------------------------------------------------------
// (a) fair-lossy liveness

fn lossy_strategy(tier: Tier) -> BoxedStrategy<Case> {
    let max_total = tier.pick(60_000u32, 300_000);
    (any::<bool>(), 1u8..3)
        .prop_flat_map(move |(v6, k)| {
            let parts = || prop::collection::vec((1u32..1000, chunks(), prop::option::weighted(0.25, prop_oneof![3 => 0u32..50, 1 => 50u32..2000]), prop::bool::weighted(0.15)), 1..5);
            let total = move || prop_oneof![1 => Just(0u32), 2 => 1u32..3000, 4 => 3000u32..30_000, 1 => 30_000u32..max_total];
            (
                sock_pair(v6, 4),
                (total(), parts()),
                (total(), parts()),
                (prop_oneof![1 => 1u32..16, 2 => 16u32..2048, 3 => 2048u32..65536], prop::option::weighted(0.3, 0u32..2000)),
                (prop_oneof![1 => 1u32..16, 2 => 16u32..2048, 3 => 2048u32..65536], prop::option::weighted(0.3, 0u32..2000)),
                gens::latency(),
                gens::fates_fair(tier.pick(500, 2000), 150),
                // 30 %: the path silently discards datagrams above some size (the same in both directions): every size
                // probe above it is lost together with its retransmissions — each probe is one identity, dropped a
                // bounded number of times
                (any::<u64>(), prop::option::weighted(0.3, 0u16..=1000)),
            )
                .prop_map(move |((mut s0, mut s1), (ta, pa), (tb, pb), (bufa, pausea), (bufb, pauseb), lat_ms, fates, (key, blackhole))| {
                    // uTP: the acceptor learns that the handshake completed from the initiator's first data packet
                    let ta = ta.max(1);
                    // keep the packet count bounded with tiny MTUs
                    let ta = ta.min(600 * s0.min_payload() as u32);
                    let tb = tb.min(600 * s1.min_payload() as u32);
                    // the inactivity limit is set above the 60 s RTO cap: with the 10 s default a backed-off RTO (the
                    // back-off persists across segments until a fresh RTT sample, RFC 6298) plus one fair drop can
                    // outlast it — noted in DESIGN.md as an observation, not what this check is after
                    // retransmission limit comfortably above what k drops of a segment plus k drops of its
                    // acknowledgement (and recovery retransmissions) can consume
                    for s in [&mut s0, &mut s1] { s.inactivity_ms = 3_600_000; s.max_retx = 4 * k + 2; }
                    // the initiator's first byte goes out at once (it completes the handshake for the acceptor)
                    let mut a_w = vec![WOp::Write { n: 1, chunk: 1 }];
                    a_w.extend(writer(ta - 1, pa));
                    a_w.push(WOp::WaitOwnReader);
                    // the application protocol: A closes once B said it is done (B's flush returned); otherwise
                    // A may be gone before B's last acknowledgement got through, which B sees as a failed flush
                    a_w.push(WOp::WaitPeerWriter);
                    a_w.push(WOp::Shutdown);
                    let b_w = writer(tb, pb);
                    let mut a_r = vec![];
                    if let Some(p) = pausea { a_r.push(ROp::Sleep(p)); }
                    a_r.push(ROp::Read { n: tb, buf: bufa });
                    let mut b_r = vec![];
                    let mut left = ta;
                    if let Some(p) = pauseb { b_r.push(ROp::Read { n: ta / 2, buf: bufb }); b_r.push(ROp::Sleep(p)); left -= ta / 2; }
                    // (exactly the expected bytes: end-of-stream is not what this property promises, see below)
                    b_r.push(ROp::Read { n: left, buf: bufb });
                    let path_mtu = match blackhole {
                        Some(f) => {
                            let ipudp = s0.ip_udp();
                            let lo = s0.min_payload().max(s1.min_payload()) + 20 + ipudp;
                            let hi = (s0.link_mtu as usize).min(s1.link_mtu as usize).max(lo);
                            let p = (lo + (hi - lo) * f as usize / 1000) as u16;
                            (Some(p), Some(p))
                        }
                        None => (None, None),
                    };
                    let sc = Scenario {
                        socks: vec![s0, s1],
                        conns: vec![ConnPlan { from: 0, to: 1, start_ms: 0, key, a_w, a_r, b_w, b_r }],
                        net: NetPlan { family: Family::FairLossy { k }, lat_ms, path_mtu, fates, cut_at: None },
                        events: vec![],
                        deadline_ms: 0, // computed by the runner below
                        linger_ms: 0,
                    };
                    Case { sc, no_guard: false }
                })
        })
        .boxed()
}

/// guards for known findings F8 (window re-opening ACK lost) — and F7 (shared with C01)
fn install_guards(net: &Net) {
    install_f7_guard(net);
    // NOTE: set_protect replaces the previous hook, so F7's logic is re-installed inside when both are active
}

fn protect_window_reopen(net: &Net) {
    if !findings().guard_active(F8_SIG) {
        return;
    }
    let mut last_wnd: std::collections::BTreeMap<(std::net::SocketAddr, std::net::SocketAddr, u16), u32> = Default::default();
    let mut cursor = 0usize;
    net.set_protect(move |rec: &WireRec, log: &[WireRec]| {
        while cursor < log.len() {
            let r = &log[cursor];
            if let Some(p) = &r.pkt { if p.ptype != refparse::ST_SYN { last_wnd.insert((r.src, r.dst, p.conn_id), p.wnd); } }
            cursor += 1;
        }
        let Some(p) = &rec.pkt else { return false };
        // a zero-window datagram must not be overtaken by its successors, and a datagram that re-opens
        // a window advertised as zero must get through
        p.ptype != refparse::ST_SYN && (p.wnd == 0 || last_wnd.get(&(rec.src, rec.dst, p.conn_id)) == Some(&0))
    });
}

fn sum_sleeps(sc: &Scenario) -> u64 {
    let c = &sc.conns[0];
    let w = |v: &Vec<WOp>| v.iter().map(|o| if let WOp::Sleep(ms) = o { *ms as u64 } else { 0 }).sum::<u64>();
    let r = |v: &Vec<ROp>| v.iter().map(|o| if let ROp::Sleep(ms) = o { *ms as u64 } else { 0 }).sum::<u64>();
    w(&c.a_w) + w(&c.b_w) + r(&c.a_r) + r(&c.b_r)
}

pub struct Lossy;
impl CheckDef for Lossy {
    type Case = Case;
    const NAME: &'static str = "lossy";
    fn strategy(tier: Tier) -> BoxedStrategy<Case> {
        lossy_strategy(tier)
    }
    fn run(case: &Case, trace: bool) -> Outcome {
        let mut sc = case.sc.clone();
        // first pass with a generous deadline to learn the number of drops, which fixes D
        // throughput term: stop-and-wait rounds imposed by tiny receive / transmit buffers
        let rtt_ms = (sc.net.lat_ms.0 as u64 + sc.net.lat_ms.1 as u64) + 40 + 150;
        let totals = { let p = &sc.conns[0]; let f = |v: &Vec<WOp>| v.iter().map(|o| if let WOp::Write { n, .. } = o { *n as u64 } else { 0 }).sum::<u64>(); (f(&p.a_w), f(&p.b_w)) };
        let per_round = |tx: &SockCfg, rx: &SockCfg| (rx.rx_buf as u64).min(tx.tx_init.max(tx.tx_max) as u64).min(2 * tx.min_payload() as u64 * 8).max(1);
        let rounds = totals.0 / per_round(&sc.socks[0], &sc.socks[1]) + totals.1 / per_round(&sc.socks[1], &sc.socks[0]);
        let base_ms = 60_000 + sum_sleeps(&sc) + 3 * rounds * rtt_ms;
        // each permitted drop can cost one maximally backed-off RTO; the back-off ratchets up to the 60 s cap under
        // sustained loss (it is only reset by a clean RTT sample), hence 65 s per drop
        // a black-holed size probe costs its own (1 + probe retransmissions) timeouts; at most ~2*log2(range)+3 probes per direction
        let blackhole_ms = if sc.net.path_mtu.0.is_some() { 2 * 30 * 4 * 65_000u64 } else { 0 };
        sc.deadline_ms = (base_ms + blackhole_ms + 65_000 * sc.net.fates.iter().filter(|f| matches!(f, crate::sim::Fate::Drop)).count() as u64).min(40_000_000) as u32;
        let no_guard = case.no_guard || std::env::var("UTPVERIF_NO_GUARD").is_ok();
        let setup = |net: &Net| { if !no_guard { install_f7_guard(net); protect_window_reopen(net); } };
        let res = e2e::run_with(&sc, trace, setup);
        let mut out = Outcome::pass();
        out.excluded_by_known_finding = res.excluded;
        let c = &res.conns[0];
        if c.connect_err.is_some() || !c.ep[0].established || !c.ep[1].established {
            return Outcome::discard("connection was not established");
        }
        // integrity is C01's business, but a corrupted stream would make the byte counts meaningless
        if c01::integrity_oracle(&sc, &res).is_some() {
            return Outcome::discard("stream integrity failed (reported by C01)");
        }
        let plan = &sc.conns[0];
        let total_a: u64 = plan.a_w.iter().map(|o| if let WOp::Write { n, .. } = o { *n as u64 } else { 0 }).sum();
        let total_b: u64 = plan.b_w.iter().map(|o| if let WOp::Write { n, .. } = o { *n as u64 } else { 0 }).sum();
        // errors that matter: any write/flush/shutdown error, and read errors before the expected bytes were all read.
        // (End-of-stream itself is not promised by this property: after shutdown() the endpoint gives the remote a
        // 1 s final chance and ends; a FIN lost in that second reaches the peer's reader as an inactivity error
        // *after* all bytes — tolerated here, labelled.)
        let mut errs: Vec<String> = vec![];
        let mut eof_as_error = false;
        for (side, e) in c.ep.iter().enumerate() {
            let expect = if side == 0 { total_b } else { total_a };
            for a in &e.recs {
                match &a.ev {
                    AppEv::WriteErr(x) | AppEv::FlushErr(x) | AppEv::ShutdownErr(x) => errs.push(format!("{:?} at t={} us (side {side})", x, a.t_us)),
                    AppEv::ReadErr(x) => { if e.read < expect { errs.push(format!("read error {:?} at t={} us after {} of {} bytes (side {side})", x, a.t_us, e.read, expect)); } else { eof_as_error = true; } }
                    _ => {}
                }
            }
        }
        let complete = res.scripts_done && c.ep[1].read == total_a && c.ep[0].read == total_b;
        if !complete || !errs.is_empty() {
            // what kind of stall? F8: the last window-carrying datagram towards a blocked sender with wnd > 0 after wnd = 0 was dropped
            let (a, b) = (res.addrs[0], res.addrs[1]);
            if c01::f7_signature(&res.log, a, b).is_some() || c01::f7_signature(&res.log, b, a).is_some() {
                // known finding F7 (a delivered probe re-cut after its ack was lost) makes the byte counts
                // meaningless; it is C01's finding and is reported there
                return Outcome::discard("F7 (probe re-cut) occurred in this run (reported by C01)");
            }
            let sig = classify_stall(&res);
            let detail = format!("by the virtual deadline ({} ms; {} datagrams dropped, fairness k) the transfer had not completed: A wrote {}/{} B read {} | B wrote {}/{} A read {} | B eof {} | scripts done {} | errors {:?}", sc.deadline_ms, res.dropped, c.ep[0].written, total_a, c.ep[1].read, c.ep[1].written, total_b, c.ep[0].read, c.ep[1].eof, res.scripts_done, errs);
            if !complete && errs.is_empty() && !trace {
                // double-check the deadline formula: re-run with 4x the deadline
                let mut sc4 = sc.clone();
                sc4.deadline_ms = sc.deadline_ms.saturating_mul(4);
                let res4 = e2e::run_with(&sc4, false, setup);
                let c4 = &res4.conns[0];
                if res4.scripts_done && c4.ep[1].read == total_a && c4.ep[0].read == total_b {
                    return Outcome::violation("harness-panic", format!("deadline formula too tight: completed with 4x the deadline. {detail}"));
                }
            }
            return Outcome { verdict: Verdict::Violation { signature: sig, detail }, ..out };
        }
        c01::common_labels(&sc, &res, &mut out);
        let dropped_acks = res.log.iter().filter(|r| matches!(r.disp, Disposition::Dropped("plan")) && r.pkt.as_ref().is_some_and(|p| p.ptype == refparse::ST_STATE)).count();
        let dropped_fin = res.log.iter().any(|r| matches!(r.disp, Disposition::Dropped("plan")) && r.pkt.as_ref().is_some_and(|p| p.ptype == refparse::ST_FIN));
        if dropped_acks > 0 { out.labels.push("dropped_pure_ack"); }
        if dropped_fin { out.labels.push("dropped_fin"); }
        if eof_as_error { out.labels.push("eof_replaced_by_error"); }
        if res.log.iter().any(|r| matches!(r.disp, Disposition::Dropped("plan")) && r.pkt.as_ref().is_some_and(|p| p.wnd > 0 && p.ptype == refparse::ST_STATE)) { out.labels.push("dropped_window_carrying_ack"); }
        out.nontrivial = res.dropped >= 3 && dropped_acks >= 1 && total_a + total_b >= 5000;
        let mut fp = Fp::default();
        for r in &res.log { if let Some(p) = &r.pkt { fp.add(((p.ptype as u64) << 32) | ((r.src.port() as u64) << 16) | p.payload.len() as u64); fp.add(matches!(r.disp, Disposition::Dropped(_)) as u64); } }
        out.fingerprint = fp.get();
        out.stats.push(("max_virtual_time_ms", res.t_end_us / 1000));
        out
    }
}

fn classify_stall(res: &RunResult) -> String {
    // F8: a sender was left with a zero window although the receiver's latest advertisement is
    // non-zero: the datagram(s) re-opening the window were dropped, or were overtaken by an older
    // zero-window datagram, and nothing repeats them.
    let mut last_emitted: std::collections::BTreeMap<(std::net::SocketAddr, std::net::SocketAddr, u16), u32> = Default::default();
    let mut deliveries: Vec<(u64, usize, (std::net::SocketAddr, std::net::SocketAddr, u16), u32)> = vec![];
    for r in &res.log {
        let Some(p) = &r.pkt else { continue };
        // (the FINs of connections dying of the stall are not part of the picture)
        if p.ptype == refparse::ST_SYN || p.ptype == refparse::ST_FIN { continue; }
        let key = (r.src, r.dst, p.conn_id);
        last_emitted.insert(key, p.wnd);
        if let Disposition::Deliver(ts) = &r.disp { for t in ts { deliveries.push((*t, r.idx, key, p.wnd)); } }
    }
    deliveries.sort();
    let mut last_delivered: std::collections::BTreeMap<(std::net::SocketAddr, std::net::SocketAddr, u16), u32> = Default::default();
    for (_, _, key, w) in deliveries { last_delivered.insert(key, w); }
    for (key, w) in &last_delivered {
        if *w == 0 && last_emitted.get(key).is_some_and(|e| *e > 0) {
            return F8_SIG.to_string();
        }
    }
    // F27: the receiver keeps discarding packets that the network delivered. After a timeout the sender resends its
    // whole flight (go-back-N); a receiver whose reassembly queue has only a few slots (receive buffer / largest
    // payload) drops what arrives more than that many packets ahead although it fits the advertised byte window;
    // every resend counts against the retransmission limit. Signature: some data packet was delivered at least three
    // times while the receiver's acknowledgements had not reached it yet.
    {
        #[derive(Default)]
        struct Dir { acked: Option<u16>, ahead_deliveries: std::collections::BTreeMap<u16, u32> }
        let mut evs: Vec<(u64, usize, bool, std::net::SocketAddr, std::net::SocketAddr, u16, u16)> = vec![]; // (t, idx, is_ack_emission, src, dst, id, number)
        for r in &res.log {
            let Some(p) = &r.pkt else { continue };
            if p.ptype == refparse::ST_SYN { continue; }
            // every emitted datagram carries the emitter's cumulative ack (for the opposite direction)
            evs.push((r.t_us, r.idx, true, r.src, r.dst, p.conn_id, p.ack));
            if p.ptype == refparse::ST_DATA {
                if let Disposition::Deliver(ts) = &r.disp { for t in ts { evs.push((*t, r.idx, false, r.src, r.dst, p.conn_id, p.seq)); } }
            }
        }
        evs.sort();
        let mut dirs: std::collections::BTreeMap<(std::net::SocketAddr, std::net::SocketAddr), Dir> = Default::default();
        for (_, _, is_ack, src, dst, _id, n) in evs {
            if is_ack {
                // src acknowledges data flowing dst -> src
                dirs.entry((dst, src)).or_default().acked = Some(n);
            } else {
                let d = dirs.entry((src, dst)).or_default();
                if d.acked.is_some_and(|a| crate::model::seq::dist(n, a) > 0) {
                    let c = d.ahead_deliveries.entry(n).or_default();
                    *c += 1;
                    if *c >= 3 { return F27_SIG.to_string(); }
                }
            }
        }
    }
    "lossy/stalled-or-failed".to_string()
}

// ------------------------------------------------------------------------------------------
// (b) loss-free promptness

fn lossfree_strategy(tier: Tier) -> BoxedStrategy<Case> {
    let max_total = tier.pick(40_000u32, 200_000);
    any::<bool>()
        .prop_flat_map(move |v6| {
            let parts = || prop::collection::vec((1u32..1000, chunks(), prop::option::weighted(0.4, prop_oneof![3 => 0u32..100, 1 => 100u32..3000, 1 => 6000u32..9000]), prop::bool::weighted(0.2)), 1..5);
            let total = move || prop_oneof![1 => Just(0u32), 2 => 1u32..3000, 4 => 3000u32..30_000, 1 => 30_000u32..max_total];
            (sock_pair(v6, 8), (total(), parts()), (total(), parts()), prop_oneof![3 => 1u16..60, 2 => 60u16..200], any::<u64>(), prop::bool::weighted(0.7), prop::bool::weighted(0.3))
                .prop_map(move |((mut s0, mut s1), (ta, pa), (tb, pb), lat, key, shutdown, unequal_links)| {
                    let ta = ta.max(1).min(600 * s0.min_payload() as u32);
                    let tb = tb.min(600 * s0.min_payload() as u32);
                    for s in [&mut s0, &mut s1] {
                        s.inactivity_ms = 120_000; // idle gaps of several seconds are part of the domain
                        // config-level guard for the pre-cut-segment stall (F11): roomy receive buffers
                        s.rx_buf = s.rx_buf.max(8 * s.max_payload() as u32);
                    }
                    // both sides on the same kind of link: the path MTU equals the link MTU (probing succeeds) …
                    let mut path_mtu = (None, None);
                    let mut tb = tb;
                    if !unequal_links {
                        s1.link_mtu = s0.link_mtu;
                    } else {
                        // … or, in three cases out of ten, the writer sits behind the smaller link and the path carries
                        // what that link carries: its segments are much smaller than the receiver's segment size, so many
                        // more of them fit the advertised window than the receiver has reassembly slots. The side on the
                        // larger link only acknowledges (its own size probes would be discarded by the path, and waiting
                        // for a probe's timer is not what the promptness clause is about).
                        if s0.link_mtu > s1.link_mtu { std::mem::swap(&mut s0.link_mtu, &mut s1.link_mtu); }
                        path_mtu = (Some(s0.link_mtu), Some(s0.link_mtu));
                        tb = 0;
                    }
                    s1.rx_buf = s1.rx_buf.max(8 * s1.max_payload() as u32);
                    let ta = ta.min(600 * s0.min_payload() as u32).max(1);
                    let mut a_w = vec![WOp::Write { n: 1, chunk: 1 }];
                    a_w.extend(writer(ta - 1, pa));
                    if shutdown { a_w.push(WOp::WaitOwnReader); a_w.push(WOp::Sleep(300)); a_w.push(WOp::Shutdown); }
                    let b_w = writer(tb, pb);
                    let sc = Scenario {
                        socks: vec![s0, s1],
                        conns: vec![ConnPlan { from: 0, to: 1, start_ms: 0, key, a_w, a_r: vec![ROp::Read { n: tb, buf: 65536 }], b_w, b_r: if shutdown { vec![ROp::ReadToEnd { buf: 65536 }] } else { vec![ROp::Read { n: ta, buf: 65536 }] } }],
                        net: NetPlan { family: Family::LossFree, lat_ms: (lat, lat), path_mtu, fates: vec![], cut_at: None },
                        events: vec![],
                        deadline_ms: 600_000,
                        linger_ms: 0,
                    };
                    Case { sc, no_guard: false }
                })
        })
        .boxed()
}

pub struct LossFree;
impl CheckDef for LossFree {
    type Case = Case;
    const NAME: &'static str = "lossfree";
    fn strategy(tier: Tier) -> BoxedStrategy<Case> {
        lossfree_strategy(tier)
    }
    fn run(case: &Case, trace: bool) -> Outcome {
        let sc = &case.sc;
        let res = e2e::run(sc, trace);
        let mut out = Outcome::pass();
        let c = &res.conns[0];
        if c.connect_err.is_some() || !c.ep[0].established || !c.ep[1].established {
            return Outcome::discard("connection was not established");
        }
        if c01::integrity_oracle(sc, &res).is_some() {
            return Outcome::discard("stream integrity failed (reported by C01)");
        }
        let lat_us = sc.net.lat_ms.0 as u64 * 1000;
        let bound = 2 * lat_us + 40_000 + 2_000;
        let (a, b) = (res.addrs[0], res.addrs[1]);
        let mut labels: BTreeSet<&'static str> = BTreeSet::new();
        macro_rules! viol {
            ($sig:expr, $($arg:tt)*) => { return Outcome { verdict: Verdict::Violation { signature: $sig.to_string(), detail: format!($($arg)*) }, ..out } };
        }
        // ---- completion (no loss: everything must arrive, no errors)
        let plan = &sc.conns[0];
        let total_a: u64 = plan.a_w.iter().map(|o| if let WOp::Write { n, .. } = o { *n as u64 } else { 0 }).sum();
        let total_b: u64 = plan.b_w.iter().map(|o| if let WOp::Write { n, .. } = o { *n as u64 } else { 0 }).sum();
        if !res.scripts_done || c.ep[1].read != total_a || c.ep[0].read != total_b {
            viol!("lossfree/not-completed", "loss-free run did not complete within {} virtual ms: A wrote {}/{} B read {} | B wrote {}/{} A read {}", sc.deadline_ms, c.ep[0].written, total_a, c.ep[1].read, c.ep[1].written, total_b, c.ep[0].read);
        }
        // ---- (i) silent intervals while accepted bytes are undelivered
        // timeline of (t, +written / +read) per direction
        #[derive(Clone, Copy)]
        enum E { W(usize, u64), R(usize, u64), Wire }
        let mut tl: Vec<(u64, u64, E)> = vec![]; // (t, ord, event)
        for (side, ep) in c.ep.iter().enumerate() {
            for r in &ep.recs {
                match r.ev { AppEv::Wrote(n) => tl.push((r.t_us, r.ord, E::W(side, n as u64))), AppEv::Read { n, .. } => tl.push((r.t_us, r.ord, E::R(side, n as u64))), _ => {} }
            }
        }
        for r in &res.log { tl.push((r.t_us, r.ord, E::Wire)); }
        tl.sort_by_key(|x| (x.0, x.1));
        // the acceptor may only send once the initiator's first data packet has reached it (it is how it
        // learns that its SYN-ACK arrived): silence before that instant is protocol, not a stall
        let t_hs = res.log.iter().find(|r| r.src == a && r.pkt.as_ref().is_some_and(|p| p.ptype == refparse::ST_DATA)).and_then(|r| r.first_delivery_us()).unwrap_or(u64::MAX);
        let mut undelivered = [0i64; 2]; // bytes written by side s not yet read by the other side
        let mut last_wire: Option<u64> = None;
        let mut busy_since: Option<u64> = None;
        let mut max_gap = 0u64;
        for (t, _, e) in &tl {
            let busy_before = undelivered[0] > 0 || undelivered[1] > 0;
            if busy_before {
                let since = last_wire.unwrap_or(0).max(busy_since.unwrap_or(0)).max(t_hs.min(*t));
                let gap = t.saturating_sub(since);
                if matches!(e, E::Wire) || true {
                    if gap > bound {
                        viol!("lossfree/silent-too-long", "with {} accepted bytes still undelivered the wire was silent for {} us (from t={} us to t={} us); one round trip plus the delayed-ACK interval is {} us (one-way latency {} ms)", undelivered[0] + undelivered[1], gap, since, t, bound, sc.net.lat_ms.0);
                    }
                    max_gap = max_gap.max(gap);
                }
            }
            match e {
                E::W(s, n) => { undelivered[*s] += *n as i64; }
                E::R(s, n) => { undelivered[1 - *s] -= *n as i64; }
                E::Wire => { last_wire = Some(*t); }
            }
            let busy_after = undelivered[0] > 0 || undelivered[1] > 0;
            if !busy_before && busy_after { busy_since = Some(*t); }
            if !busy_after { busy_since = None; }
        }
        // ---- (ii) write on an idle connection is transmitted at once; (iii) shutdown on idle emits the FIN at once
        for (side, ep) in c.ep.iter().enumerate() {
            let (me, peer) = if side == 0 { (a, b) } else { (b, a) };
            let my_data: Vec<&WireRec> = res.log.iter().filter(|r| r.src == me && r.pkt.as_ref().is_some_and(|p| p.ptype == refparse::ST_DATA)).collect();
            let peer_to_me: Vec<&WireRec> = res.log.iter().filter(|r| r.src == peer && r.dst == me && r.pkt.as_ref().is_some_and(|p| p.ptype != refparse::ST_SYN)).collect();
            let mss = sc.socks[side].min_payload() as u32;
            let mut written_before = 0u64;
            let mut op_open = true; // first Wrote of a Write op
            for rec in &ep.recs {
                match &rec.ev {
                    AppEv::Wrote(n) => {
                        if op_open {
                            // idle: everything sent so far acknowledged by datagrams *delivered* before this instant, nothing buffered
                            let sent: u64 = { let mut seen = BTreeSet::new(); my_data.iter().filter(|d| d.t_us < rec.t_us && seen.insert(d.pkt.as_ref().unwrap().seq)).map(|d| d.pkt.as_ref().unwrap().payload.len() as u64).sum() };
                            let last_seq = my_data.iter().filter(|d| d.t_us < rec.t_us).map(|d| d.pkt.as_ref().unwrap().seq).last();
                            let acked = last_seq.is_none_or(|ls| peer_to_me.iter().any(|r| r.first_delivery_us().is_some_and(|d| d < rec.t_us) && { let p = r.pkt.as_ref().unwrap(); dist(p.ack, ls) >= 0 && dist(p.ack, ls) < 3000 }));
                            let wnd = peer_to_me.iter().filter(|r| r.first_delivery_us().is_some_and(|d| d < rec.t_us)).last().map(|r| r.pkt.as_ref().unwrap().wnd);
                            let idle = sent == written_before && acked && wnd.is_some_and(|w| w >= mss) && rec.t_start_us == rec.t_us;
                            // no FIN either way
                            let fin_seen = res.log.iter().any(|r| r.t_us <= rec.t_us && r.pkt.as_ref().is_some_and(|p| p.ptype == refparse::ST_FIN));
                            if idle && !fin_seen {
                                labels.insert("write_on_idle");
                                if !my_data.iter().any(|d| d.t_us == rec.t_us) {
                                    viol!("lossfree/write-on-idle-delayed", "side {side}: a write of {n} bytes was accepted at t={} us on an idle connection (everything acknowledged, window {:?}) but no data left at that instant", rec.t_us, wnd);
                                }
                            }
                        }
                        op_open = false;
                        written_before += *n as u64;
                    }
                    AppEv::WriteOpDone => op_open = true,
                    AppEv::ShutdownOk | AppEv::ShutdownErr(_) => {
                        let t = rec.t_start_us;
                        let last_seq = my_data.iter().filter(|d| d.t_us <= t).map(|d| d.pkt.as_ref().unwrap().seq).last();
                        let acked = last_seq.is_none_or(|ls| peer_to_me.iter().any(|r| r.first_delivery_us().is_some_and(|d| d < t) && { let p = r.pkt.as_ref().unwrap(); dist(p.ack, ls) >= 0 && dist(p.ack, ls) < 3000 }));
                        let sent: u64 = { let mut seen = BTreeSet::new(); my_data.iter().filter(|d| d.t_us <= t && seen.insert(d.pkt.as_ref().unwrap().seq)).map(|d| d.pkt.as_ref().unwrap().payload.len() as u64).sum() };
                        let peer_fin = peer_to_me.iter().any(|r| r.pkt.as_ref().unwrap().ptype == refparse::ST_FIN && r.first_delivery_us().is_some_and(|d| d <= t));
                        if acked && sent == written_before && !peer_fin {
                            labels.insert("shutdown_on_idle");
                            let fin = res.log.iter().find(|r| r.src == me && r.pkt.as_ref().is_some_and(|p| p.ptype == refparse::ST_FIN));
                            match fin {
                                Some(f) if f.t_us == t => {}
                                other => viol!("lossfree/shutdown-on-idle-delayed", "side {side}: shutdown was called at t={t} us on an idle connection but the FIN left at {:?}", other.map(|f| f.t_us)),
                            }
                        }
                    }
                    _ => {}
                }
            }
        }
        // ---- (iv) no retransmission at all when 2L + 40 ms is safely below the minimum RTO
        if sc.net.lat_ms.0 <= 60 {
            let mut seen = BTreeSet::new();
            for r in &res.log {
                if let Some(p) = &r.pkt {
                    if (p.ptype == refparse::ST_DATA || p.ptype == refparse::ST_FIN) && !seen.insert((r.src, p.conn_id, p.seq, p.ptype)) {
                        viol!("lossfree/retransmission", "log #{}: {} retransmitted on a loss-free path with one-way latency {} ms (progress waited for a retransmission timer)", r.idx, p.short(), sc.net.lat_ms.0);
                    }
                }
            }
            labels.insert("no_retransmission_checked");
        }
        c01::common_labels(sc, &res, &mut out);
        out.labels.extend(labels.iter().copied());
        let idle_gap = plan.a_w.iter().chain(plan.b_w.iter()).any(|o| matches!(o, WOp::Sleep(ms) if *ms >= 6000));
        if idle_gap { out.labels.push("idle_gap_gt_6s"); }
        out.nontrivial = labels.contains("write_on_idle") || labels.contains("shutdown_on_idle");
        let mut fp = Fp::default();
        for r in &res.log { if let Some(p) = &r.pkt { fp.add(((p.ptype as u64) << 32) | ((r.src.port() as u64) << 16) | p.payload.len() as u64); fp.add(r.t_us / 1000 % 97); } }
        out.fingerprint = fp.get();
        out.stats.push(("max_silent_gap_us", max_gap));
        out
    }
}

pub fn run(ctx: &mut Ctx) {
    ctx.rule("(a) E2E fair-lossy: generated bidirectional transfers (0..60/300 KB each way), chunking, pauses, buffers/MTU/Nagle/ISN; fault plan with per-identity drop budget k in {1,2} (pure ACK identity = (direction, ack_nr): fairer than required), delay/duplication <= 150 ms; handshake never faulted. Oracle: by the virtual deadline 60 s + 65 s x drops + pauses + stop-and-wait rounds everything written has been read, flush/shutdown resolved, EOF seen, no operation failed (a miss is re-run with 4x the deadline before being reported). non-trivial = >=3 drops incl. a pure ACK and >=5 KB. (b) E2E loss-free, latency 1..200 ms, equal links or (30 %) the writer behind the smaller link with the path MTU of that link and a reader that only acknowledges, readers always reading, writers with pauses incl. idle gaps > 6 s, flush/shutdown points: silent interval with undelivered bytes <= 2L+40 ms(+2), write on idle => data at the same instant, shutdown on idle => FIN at the same instant, L<=60 ms => no retransmission at all. non-trivial = >=1 write or shutdown on an idle connection. distinct by hash of the wire log shape");
    ctx.assume("virtual deadlines stand in for 'eventually'; tokio paused clock; sim::Net");
    ctx.replay_corpus::<Lossy>();
    ctx.replay_corpus::<LossFree>();
    ctx.run_generated::<Lossy>(ctx.tier.pick(15_000, 600_000));
    ctx.run_generated::<LossFree>(ctx.tier.pick(15_000, 600_000));
    let _ = install_guards;
}

pub fn replay(v: &Value) -> Option<i32> {
    replay_file::<Lossy>("C02", v).or_else(|| replay_file::<LossFree>("C02", v))
}
