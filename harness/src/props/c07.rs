//! C07 — Acknowledgement timeliness: delayed-ACK bound and immediate-ACK triggers (engine SP).
use std::collections::{BTreeMap, BTreeSet};

use proptest::prelude::*;
use serde::{Deserialize, Serialize};
use serde_json::Value;

use crate::engine::*;
use crate::model::{refparse, seq::dist};
use crate::props::rxgen::{self, RxGen};
use crate::sim::{
    app::AppEv,
    sp::{self, Ev, SpCase, SpResult},
};

#[derive(Clone, Debug, Serialize, Deserialize)]
pub struct Case {
    pub sp: SpCase,
}

const ACK_DELAY_US: u64 = 40_000;
const TOL_US: u64 = 1_000; // tokio timer wheel granularity

#[derive(Debug)]
struct Owed {
    rel: i32,
    t_us: u64,
    log_idx: usize,
    immediate: Option<&'static str>,
    ord: u64,
    bytes: usize,
}

pub fn oracle(case: &SpCase, res: &SpResult) -> (Option<(String, String)>, Vec<&'static str>, bool, u64) {
    let mut labels: BTreeSet<&'static str> = BTreeSet::new();
    let mut fp = Fp::default();
    let first = res.peer_first_seq;
    let rel = |s: u16| dist(s, first);
    let mut got: BTreeMap<i32, usize> = BTreeMap::new();
    let mut contig: i32 = -1;
    let mut fin_seen = false;
    let mut fin_k: Option<i32> = None;
    let mut fin_ord: Option<u64> = None;
    let mut owed: Vec<Owed> = vec![];
    let mut bytes_since_tx: usize = 0;
    let mut mss_upper: usize = case.sock.min_payload();
    let mut last_tx_wnd: Option<u32> = None;
    let (mut delayed, mut immediate_n) = (0u32, 0u32);
    // for the silence clause
    let mut sock_high: Option<u16> = None; // highest data/FIN seq the socket sent
    let mut peer_acked: Option<u16> = None;
    let mut last_tx_ack_rel: i32 = -1;
    let mut last_activity_us: u64 = 0;
    let mut own_fin = false;
    let t_end = res.t_end_us;
    // silence clause: instant since which the connection has been quiescent
    let mut quiet_since: Option<u64> = None;
    let mut sent_payload: u64 = 0; // bytes of first transmissions
    let mut app_times: Vec<u64> = res.app.iter().filter(|a| matches!(a.ev, AppEv::Wrote(_) | AppEv::Read { .. } | AppEv::WriterDropped | AppEv::ReaderDropped | AppEv::ShutdownOk | AppEv::ShutdownErr(_))).map(|a| a.t_us).collect();
    // (a shutdown call is an application call from the instant it is made, not only once it has resolved)
    app_times.extend(res.shutdown_called_at_us);
    app_times.extend(res.app.iter().filter(|a| matches!(a.ev, AppEv::ShutdownOk | AppEv::ShutdownErr(_))).map(|a| a.t_start_us));
    let writes_total_by = |t: u64| -> u64 { res.app.iter().filter(|a| a.t_us <= t).map(|a| if let AppEv::Wrote(n) = a.ev { n as u64 } else { 0 }).sum() };
    let shutdown_started = res.app.iter().filter(|a| matches!(a.ev, AppEv::ShutdownOk | AppEv::ShutdownErr(_) | AppEv::WriterDropped)).map(|a| a.t_start_us).min();

    let evs: Vec<Ev> = sp::events(res).collect();
    for (ei, ev) in evs.iter().enumerate() {
        match ev {
            Ev::Rx(r, p) => {
                if r.idx < res.steps_from_idx || p.conn_id != res.id_to_sock { continue; }
                last_activity_us = r.t_us;
                if p.ptype == refparse::ST_STATE || p.ptype == refparse::ST_DATA || p.ptype == refparse::ST_FIN {
                    if peer_acked.is_none_or(|a| dist(p.ack, a) > 0) { peer_acked = Some(p.ack); }
                }
                // "when a duplicate / a FIN arrives": the peer retransmits the FIN that was already honoured (the
                // acknowledgement got lost). While the connection task lives that duplicate is acknowledged at once.
                if p.ptype == refparse::ST_FIN && fin_seen && fin_k == Some(rel(p.seq)) {
                    // (the end of the task at this very instant — a timer that expires just as the packet arrives — counts
                    // as before: same-instant rule K2)
                    let ended_before = res.conn_events.iter().any(|e| e.kind == "vsock-end" && (e.ord < r.ord || e.t_us <= r.t_us));
                    let reset_before = evs[..ei].iter().any(|e| matches!(e, Ev::Rx(_, q) if q.ptype == refparse::ST_RESET && q.conn_id == res.id_to_sock));
                    if !ended_before && !reset_before {
                        labels.insert("peer_fin_retransmitted");
                        let k = rel(p.seq);
                        let acked_now = evs[ei + 1..].iter().take_while(|e| match e { Ev::Rx(x, _) | Ev::Tx(x, _) => x.t_us == r.t_us }).any(|e| matches!(e, Ev::Tx(_, q) if q.conn_id == res.id_to_peer && q.ptype != refparse::ST_RESET && rel(q.ack) >= k));
                        if !acked_now {
                            return (Some(("not-immediate/dup-fin".into(), format!("log #{}: the peer's FIN (seq {}), already honoured, arrived again at t={} us while the connection task was alive, but nothing acknowledging it left at that instant", r.idx, p.seq, r.t_us))), vec![], false, 0);
                        }
                    }
                    continue;
                }
                if fin_seen || own_fin { continue; }
                if p.ptype != refparse::ST_DATA && p.ptype != refparse::ST_FIN { continue; }
                let k = rel(p.seq);
                if k < 0 { continue; }
                mss_upper = mss_upper.max(p.payload.len());
                let ooq_nonempty_before = got.keys().any(|x| *x > contig);
                let is_dup = k <= contig || got.contains_key(&k);
                let mut why: Option<&'static str> = None;
                if is_dup {
                    why = Some("dup");
                    labels.insert("dup");
                } else {
                    got.insert(k, p.payload.len());
                    let before = contig;
                    while got.contains_key(&(contig + 1)) { contig += 1; }
                    let released: usize = ((before + 1)..=contig).map(|x| got[&x]).sum();
                    bytes_since_tx += released;
                    if k > before + 1 { why = Some("ooo"); labels.insert("ooo"); }
                    else if ooq_nonempty_before { why = Some("gap_fill"); labels.insert("gap_fill"); }
                    if p.ptype == refparse::ST_FIN && k == before + 1 { why = Some("fin"); labels.insert("fin"); fin_seen = true; fin_k = Some(k); }
                    if why.is_none() && bytes_since_tx >= 2 * mss_upper { why = Some("threshold_2mss"); labels.insert("threshold_2mss"); }
                }
                // what must be acknowledged: for an in-order (or gap-filling) arrival the new
                // contiguous point; for a duplicate / out-of-order arrival "an ACK" (any ack_nr)
                let need_rel = if is_dup || k > contig { i32::MIN } else { contig };
                owed.push(Owed { rel: need_rel, t_us: r.t_us, log_idx: r.idx, immediate: why, ord: r.ord, bytes: if is_dup { 0 } else { p.payload.len() } });
                if p.ptype == refparse::ST_FIN { fin_ord.get_or_insert(r.ord); }
            }
            Ev::Tx(r, p) => {
                if r.idx < res.steps_from_idx || p.conn_id != res.id_to_peer { continue; }
                if let Some(q) = quiet_since {
                    // (an application call at the very instant quiescence was reached may not have been processed by then)
                    let app_between = app_times.iter().any(|t| *t >= q && *t <= r.t_us);
                    if r.t_us >= q + 1_000_000 && !app_between && !fin_seen && !own_fin {
                        labels.insert("idle_silence_checked");
                        return (Some(("not-silent-when-idle".into(), format!("log #{}: {} emitted at t={} us although the connection had been quiescent since t={} us (everything acknowledged both ways, nothing buffered, no application call in between)", r.idx, p.short(), r.t_us, q))), vec![], false, 0);
                    }
                }
                last_activity_us = r.t_us;
                if p.ptype == refparse::ST_DATA || p.ptype == refparse::ST_FIN {
                    if p.ptype == refparse::ST_DATA && sock_high.is_none_or(|h| dist(p.seq, h) > 0) { sent_payload += p.payload.len() as u64; }
                    if sock_high.is_none_or(|h| dist(p.seq, h) > 0) { sock_high = Some(p.seq); }
                    if p.ptype == refparse::ST_DATA { mss_upper = mss_upper.max(p.payload.len()); labels.insert("piggyback_possible"); }
                    if p.ptype == refparse::ST_FIN {
                        // uTP has no half-close: once the endpoint has sent its FIN (own close or
                        // death) it owes no further acknowledgements
                        own_fin = true;
                        owed.clear();
                    }
                }
                let a = rel(p.ack);
                last_tx_ack_rel = a;
                bytes_since_tx = 0;
                last_tx_wnd = Some(p.wnd);
                // a packet injected at this very instant may still have been in the socket's
                // receive queue when this datagram was emitted: then the 2*mss count restarts
                // from that packet and its acknowledgement is merely owed within 40 ms
                for o in owed.iter_mut() {
                    if o.immediate == Some("threshold_2mss") && o.t_us == r.t_us && a < o.rel {
                        o.immediate = None;
                        bytes_since_tx += o.bytes;
                    }
                }
                // settle owed acknowledgements
                let mut i = 0;
                while i < owed.len() {
                    let o = &owed[i];
                    let satisfies = if o.rel == i32::MIN { r.ord > o.ord } else { a >= o.rel };
                    if satisfies {
                        let dt = r.t_us - o.t_us;
                        if let Some(why) = o.immediate {
                            if dt != 0 {
                                return (Some((format!("not-immediate/{why}"), format!("peer packet log #{} (t={} us, trigger: {why}) was acknowledged only at t={} us (log #{}), {} us later; an immediate ACK (no clock advance) is required", o.log_idx, o.t_us, r.t_us, r.idx, dt))), vec![], false, 0);
                            }
                            immediate_n += 1;
                        } else {
                            if dt > ACK_DELAY_US + TOL_US {
                                return (Some(("ack-later-than-40ms".into(), format!("in-order data log #{} (t={} us) acknowledged at t={} us (log #{}): {} us > 40 ms delayed-ACK interval", o.log_idx, o.t_us, r.t_us, r.idx, dt))), vec![], false, 0);
                            }
                            if dt > 0 { delayed += 1; labels.insert("delayed_ack"); if dt >= ACK_DELAY_US { labels.insert("delayed_40ms"); } }
                        }
                        owed.remove(i);
                    } else {
                        i += 1;
                    }
                }
                fp.add(((r.t_us / 1000) % 64) ^ ((a.max(-1) as u64) << 8));
            }
        }
        // quiescence after this event?
        {
            let t_now = match ev { Ev::Rx(r, _) | Ev::Tx(r, _) => r.t_us };
            let all_peer_data_acked = contig == last_tx_ack_rel;
            let all_sock_data_acked = match (sock_high, peer_acked) { (None, _) => true, (Some(h), Some(a)) => dist(a, h) >= 0, _ => false };
            let nothing_buffered = writes_total_by(t_now) == sent_payload;
            let closing = shutdown_started.is_some_and(|t| t <= t_now);
            let q = owed.is_empty() && all_peer_data_acked && all_sock_data_acked && nothing_buffered && !closing && !fin_seen && !own_fin && last_tx_wnd.is_none_or(|w| w > 0);
            if q { quiet_since.get_or_insert(t_now); } else { quiet_since = None; }
            let next_gap = evs.get(ei + 1).map(|e| match e { Ev::Rx(r, _) | Ev::Tx(r, _) => r.t_us }).unwrap_or(t_end).saturating_sub(t_now);
            if q && next_gap >= 5_000_000 { labels.insert("idle_silence_checked"); }
        }
        // deadline check for owed acks when the next event is later than the deadline
        let next_t = evs.get(ei + 1).map(|e| match e { Ev::Rx(r, _) | Ev::Tx(r, _) => r.t_us }).unwrap_or(t_end);
        for o in &owed {
            let limit = if o.immediate.is_some() { 0 } else { ACK_DELAY_US + TOL_US };
            if next_t > o.t_us + limit {
                // nothing was emitted in time. (A connection that has died cannot acknowledge.)
                if res.read_err.is_some() || res.write_err.is_some() { continue; }
                let why = o.immediate.unwrap_or("in-order");
                let sig = if o.immediate.is_some() { format!("not-immediate/{why}") } else { "ack-later-than-40ms".to_string() };
                return (Some((sig, format!("peer packet log #{} (t={} us, trigger: {why}) had not been acknowledged when the next wire event happened at t={} us", o.log_idx, o.t_us, next_t))), vec![], false, 0);
            }
        }
    }
    let _ = last_tx_ack_rel;

    // (v) window re-opening: an application read that takes the advertised window from 0 to >= mss
    // must produce an ACK with wnd > 0 at the instant of that read. Checked from the wire: after a
    // Tx with wnd == 0, the first Tx with wnd > 0 must coincide with a read, and a draining reader
    // must get one.
    let txs: Vec<(&crate::sim::WireRec, &refparse::RefPacket)> = evs.iter().filter_map(|e| if let Ev::Tx(r, p) = e { if r.idx >= res.steps_from_idx && p.conn_id == res.id_to_peer { Some((*r, *p)) } else { None } } else { None }).collect();
    let reads: Vec<(u64, u64, usize)> = res.app.iter().filter_map(|a| if let AppEv::Read { n, .. } = a.ev { Some((a.ord, a.t_us, n)) } else { None }).collect();
    let reader_dropped = res.app.iter().any(|a| matches!(a.ev, AppEv::ReaderDropped));
    for (i, (r, p)) in txs.iter().enumerate() {
        if p.wnd == 0 && p.ptype != refparse::ST_RESET && p.ptype != refparse::ST_FIN && !fin_before(&txs, i) {
            labels.insert("window_zero");
            // total bytes the reader took after this packet
            let taken_after: usize = reads.iter().filter(|(o, _, _)| *o > r.ord).map(|(_, _, n)| *n).sum();
            let next_open = txs[i + 1..].iter().find(|(_, q)| q.wnd > 0);
            // (nor once the endpoint itself has sent its FIN: whatever window its later packets — retransmissions
            // of that FIN — carry is no window update)
            let own_fin_before_open = txs[i + 1..].iter().take_while(|(_, q)| q.wnd == 0).any(|(_, q)| q.ptype == refparse::ST_FIN) || next_open.is_some_and(|(_, q)| q.ptype == refparse::ST_FIN);
            if own_fin_before_open { continue; }
            if next_open.is_some_and(|(r2, _)| fin_ord.is_some_and(|f| f < r2.ord)) {
                // once the peer's FIN is in, window updates are pointless and not sent by design
                continue;
            }
            if let Some((r2, _)) = next_open {
                labels.insert("window_reopen");
                // the re-opening ACK must be at the instant of a read (it is caused by one)
                if !reads.iter().any(|(_, t, _)| *t == r2.t_us) && !reader_dropped {
                    // it may also be caused by the reassembly queue draining into the user queue at a packet arrival; accept any stimulus at that instant
                    let stimulus = evs.iter().any(|e| matches!(e, Ev::Rx(rr, _) if rr.t_us == r2.t_us));
                    if !stimulus {
                        return (Some(("window-reopen-late".into(), format!("window was 0 at log #{}, re-opened by log #{} at t={} us, which coincides with no application read or packet arrival (a timer delivered the update)", r.idx, r2.idx, r2.t_us))), vec![], false, 0);
                    }
                }
            } else if !reader_dropped && !fin_seen && res.read_err.is_none() {
                // window still closed at the end although the reader drained >= rx_buf bytes afterwards
                if taken_after >= case.sock.rx_buf as usize + mss_upper && res.established {
                    return (Some(("window-never-reopened".into(), format!("window advertised as 0 at log #{} and never re-opened although the reader took {} bytes afterwards (receive buffer {})", r.idx, taken_after, case.sock.rx_buf))), vec![], false, 0);
                }
            }
        }
    }
    let _ = last_tx_wnd;

    let nontrivial = delayed >= 1 && immediate_n >= 1;
    (None, labels.into_iter().collect(), nontrivial, fp.get())
}

fn fin_before(txs: &[(&crate::sim::WireRec, &refparse::RefPacket)], i: usize) -> bool {
    txs[..i].iter().any(|(_, p)| p.ptype == refparse::ST_FIN)
}

pub struct Sp;
impl CheckDef for Sp {
    type Case = Case;
    const NAME: &'static str = "sp";
    fn strategy(tier: Tier) -> BoxedStrategy<Case> {
        rxgen::strategy(RxGen { early_shutdown: false, hostile: false, max_steps: tier.pick(50, 120), with_writes: true, long_idle: true, fin_retx: true })
            .prop_map(|mut sp| {
                sp.sock.inactivity_ms = 3_600_000; // the inactivity limit is not what this check is about
                Case { sp }
            })
            .boxed()
    }
    fn run(case: &Case, trace: bool) -> Outcome {
        let res = sp::run(&case.sp, trace);
        if !res.established {
            return Outcome::discard(format!("handshake did not complete: {:?}", res.handshake_err));
        }
        let (v, labels, nontrivial, fp) = oracle(&case.sp, &res);
        if let Some((sig, detail)) = v {
            return Outcome::violation(format!("sp/{sig}"), detail);
        }
        let mut o = Outcome::pass();
        o.labels = labels;
        o.nontrivial = nontrivial;
        o.fingerprint = fp;
        o
    }
}

pub fn run(ctx: &mut Ctx) {
    ctx.rule("SP: disciplined scripted peer sends data with generated inter-arrival gaps (1,5,39,40,41,100,1000 ms, idle 5-120 s), sizes, orders (in order, gap, gap fill, duplicate), FIN and its retransmission, early shutdown of the endpoint's own direction; reader schedules incl. stopped-then-drain; the endpoint may write (piggy-backed ACKs). Oracle from wire timestamps: every accepted in-order packet acked within 40 ms (+1 ms timer granularity); acked at the same virtual instant when out of order / gap fill / duplicate / in-sequence FIN / >= 2*mss unacknowledged; window re-opening coincides with its cause; idle silence. non-trivial = >=1 delayed and >=1 immediate ACK; distinct by hash of (emission ms mod 64, ack) sequence");
    ctx.assume("same-instant = equal virtual timestamps (tasks run to quiescence before the paused clock advances)");
    ctx.replay_corpus::<Sp>();
    ctx.run_generated::<Sp>(ctx.tier.pick(60_000, 2_500_000));
}

pub fn replay(v: &Value) -> Option<i32> {
    replay_file::<Sp>("C07", v)
}
