//! C11(c) — every datagram the library emits is accepted by the independent BEP-29 parser, carries
//! version 1 and the connection id owed to its direction. The simulator evaluates this for every
//! datagram a real socket sends (`WirePredicates::malformed`); the sub-checks here drive three kinds of
//! emitters and assert that the list stays empty.
use proptest::prelude::*;
use serde_json::Value;

use crate::engine::*;
use crate::model::refparse;
use crate::props::{c01, c10, c12};
use crate::sim::{WirePredicates, WireRec, e2e, mc, sp};

fn judge(preds: &WirePredicates, log: &[WireRec]) -> Outcome {
    if let Some((idx, why)) = preds.malformed.first() {
        return Outcome::violation("emit/malformed", format!("log #{idx}: {why}"));
    }
    let mut o = Outcome::pass();
    let emitted: Vec<&WireRec> = log.iter().filter(|r| r.from_stack).collect();
    let mut labels = std::collections::BTreeSet::new();
    let mut fp = Fp::default();
    for r in &emitted {
        let Some(p) = &r.pkt else { continue };
        if p.version != 1 {
            return Outcome::violation("emit/version", format!("log #{}: emitted datagram carries version {}", r.idx, p.version));
        }
        if (p.ptype == refparse::ST_DATA) != !p.payload.is_empty() {
            return Outcome::violation("emit/payload-rule", format!("log #{}: {} with {} payload bytes", r.idx, p.short(), p.payload.len()));
        }
        match p.ptype {
            refparse::ST_RESET => { labels.insert("reset_emitted"); }
            refparse::ST_FIN => { labels.insert("fin_emitted"); }
            _ => {}
        }
        if p.last_ext(1).is_some() { labels.insert("sack_emitted"); }
        if p.exts.len() >= 2 { labels.insert("two_extensions_emitted"); }
        if p.exts.iter().any(|e| e.0 != 1) { labels.insert("other_extension_emitted"); }
        fp.add(((p.ptype as u64) << 16) | (p.exts.len() as u64) << 8 | (p.payload.len() as u64 & 0xff));
    }
    o.labels = labels.into_iter().collect();
    o.nontrivial = emitted.len() >= 10 && o.labels.contains(&"sack_emitted");
    fp.add(emitted.len() as u64);
    o.fingerprint = fp.get();
    o
}

pub struct EmitE2e;
impl CheckDef for EmitE2e {
    type Case = c01::Case;
    const NAME: &'static str = "emit-e2e";
    fn strategy(tier: Tier) -> BoxedStrategy<Self::Case> {
        c01::scenario_strategy(tier.pick(60_000, 300_000), tier.pick(250, 600)).prop_map(|sc| c01::Case { sc, no_guard: true }).boxed()
    }
    fn run(case: &Self::Case, trace: bool) -> Outcome {
        let res = e2e::run(&case.sc, trace);
        judge(&res.preds, &res.log)
    }
}

pub struct EmitSp;
impl CheckDef for EmitSp {
    type Case = c10::Case;
    const NAME: &'static str = "emit-sp";
    fn strategy(tier: Tier) -> BoxedStrategy<Self::Case> {
        <c10::Hostile as CheckDef>::strategy(tier)
    }
    fn run(case: &Self::Case, trace: bool) -> Outcome {
        let _ = take_panics();
        let res = sp::run(case, trace);
        let _ = take_panics(); // (panics are C10's business)
        judge(&res.preds, &res.log)
    }
}

pub struct EmitMc;
impl CheckDef for EmitMc {
    type Case = c12::Case;
    const NAME: &'static str = "emit-mc";
    fn strategy(tier: Tier) -> BoxedStrategy<Self::Case> {
        <c12::Mc as CheckDef>::strategy(tier)
    }
    fn run(case: &Self::Case, trace: bool) -> Outcome {
        let res = mc::run(case, trace);
        judge(&res.preds, &res.log)
    }
}

/// listeners whose request queue overflows: the RESET replies are emitted by the dispatcher, not by a connection
pub struct EmitBacklog;
impl CheckDef for EmitBacklog {
    type Case = crate::props::c13::Case;
    const NAME: &'static str = "emit-backlog";
    fn strategy(tier: Tier) -> BoxedStrategy<Self::Case> {
        <crate::props::c13::Backlog as CheckDef>::strategy(tier)
    }
    fn run(case: &Self::Case, trace: bool) -> Outcome {
        let res = mc::run(&case.mc, trace);
        let mut o = judge(&res.preds, &res.log);
        if !o.is_violation() {
            o.nontrivial = o.labels.contains(&"reset_emitted");
        }
        o
    }
}

pub fn run(ctx: &mut Ctx) {
    ctx.rule("(iii) emitters: lossy end-to-end transfers (SACKs, FINs, probes), a socket under hostile traffic (RESET replies, SACKs for damaged arrival orders, handshake answers to crafted SYNs) concurrent connect/accept workloads (many ids between the same addresses) and listeners whose request queue overflows (RESET replies from the dispatcher). Every datagram a real socket sends is parsed by the independent reference parser inside the simulator: accepted, version 1, payload exactly on data packets, and a connection id that a SYN between the two addresses justifies for that direction (SYN id + 1 from the initiator, SYN id from the acceptor). non-trivial = >= 10 emissions incl. a selective ack; distinct by hash of (type, extensions, length) sequence");
    ctx.replay_corpus::<EmitE2e>();
    ctx.replay_corpus::<EmitSp>();
    ctx.replay_corpus::<EmitMc>();
    ctx.replay_corpus::<EmitBacklog>();
    ctx.run_generated::<EmitE2e>(ctx.tier.pick(8_000, 300_000));
    ctx.run_generated::<EmitSp>(ctx.tier.pick(10_000, 300_000));
    ctx.run_generated::<EmitMc>(ctx.tier.pick(8_000, 300_000));
    ctx.run_generated::<EmitBacklog>(ctx.tier.pick(4_000, 150_000));
}

pub fn replay(v: &Value) -> Option<i32> {
    replay_file::<EmitE2e>("C11", v).or_else(|| replay_file::<EmitSp>("C11", v)).or_else(|| replay_file::<EmitMc>("C11", v)).or_else(|| replay_file::<EmitBacklog>("C11", v))
}
