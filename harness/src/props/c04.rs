//! C04 — Receiver honesty: acknowledgements and advertised window never overstate (engine SP).
use std::collections::{BTreeMap, BTreeSet};

use proptest::prelude::*;
use serde::{Deserialize, Serialize};
use serde_json::Value;

use crate::engine::*;
use crate::model::{refparse, seq::dist};
use crate::props::rxgen::{self, RxGen};
use crate::sim::{
    app::AppEv,
    sp::{self, Ev, SpCase, SpResult, peer_payload},
};

#[derive(Clone, Debug, Serialize, Deserialize)]
pub struct Case {
    pub sp: SpCase,
}

/// Receiver model from the peer's side + the honesty oracle. Returns (violation, labels, stats).
pub fn oracle(case: &SpCase, res: &SpResult) -> (Option<(String, String)>, Vec<&'static str>, bool, u64) {
    let mut labels: BTreeSet<&'static str> = BTreeSet::new();
    let mut fp = Fp::default();
    let first = res.peer_first_seq;
    let rel = |s: u16| dist(s, first); // 0 = first data seq of the peer
    let rx_buf = case.sock.rx_buf as i64;
    // arrivals so far: rel seq -> len (FIN: len 0)
    let mut got: BTreeMap<i32, usize> = BTreeMap::new();
    // virtual time at which each rel seq first arrived: exactness clauses only count arrivals at a
    // strictly earlier instant (a packet injected at the same instant may still sit in the socket's
    // receive queue when the connection task emits)
    let mut arrived_at: BTreeMap<i32, u64> = BTreeMap::new();
    let mut fin_rel: Option<i32> = None;
    let mut contig: i32 = -1; // highest contiguous rel seq delivered (incl. in-sequence FIN)
    let mut prev_ack: Option<u16> = None;
    let mut last_tx_ack_rel: i32 = -1;
    let mut sack_seen = false;
    let mut ooo_seen = false;
    let mut emitted_sack_nonzero = false;
    let cap = (case.sock.rx_buf as usize / case.sock.min_payload().max(1)).max(1);
    let cap = if (case.sock.rx_buf as usize) < case.sock.min_payload() { 64 } else { cap };
    // application reads ordered by ord
    let reads: Vec<(u64, usize)> = res.app.iter().filter_map(|a| if let AppEv::Read { n, .. } = a.ev { Some((a.ord, n)) } else { None }).collect();
    let reader_dropped_ord = res.app.iter().find(|a| matches!(a.ev, AppEv::ReaderDropped)).map(|a| a.ord);
    let mut max_held: i64 = 0;

    for ev in sp::events(res) {
        match ev {
            Ev::Rx(r, p) => {
                if r.idx < res.steps_from_idx || p.conn_id != res.id_to_sock {
                    continue;
                }
                match p.ptype {
                    refparse::ST_DATA | refparse::ST_FIN => {
                        let k = rel(p.seq);
                        if k < 0 { labels.insert("old_seq"); continue; }
                        if fin_rel.is_some_and(|f| k > f) { labels.insert("after_fin"); }
                        if k as i64 >= contig as i64 + 1 + cap as i64 { labels.insert("beyond_window"); }
                        if got.contains_key(&k) || k <= contig { labels.insert("dup"); }
                        if k > contig + 1 { ooo_seen = true; labels.insert("ooo"); }
                        if p.seq < first && k > 0 { labels.insert("wrap"); }
                        // `got` is everything ever delivered to the endpoint: an upper bound of what
                        // it holds (it may refuse packets beyond its window) and exact for a
                        // disciplined peer. A sequence number has one meaning (data of fixed length,
                        // or FIN), enforced by the interpreter.
                        if p.ptype == refparse::ST_FIN {
                            fin_rel = Some(fin_rel.map_or(k, |f: i32| f.min(k)));
                            got.entry(k).or_insert(0);
                        } else {
                            got.entry(k).or_insert(p.payload.len());
                        }
                        arrived_at.entry(k).or_insert(r.t_us);
                        while got.contains_key(&(contig + 1)) { contig += 1; }
                    }
                    _ => {}
                }
            }
            Ev::Tx(r, p) => {
                if r.idx < res.steps_from_idx || p.conn_id != res.id_to_peer {
                    continue;
                }
                let a = rel(p.ack); // -1 = nothing received yet
                // (a) never moves backwards
                if let Some(pa) = prev_ack {
                    if dist(p.ack, pa) < 0 {
                        return (Some(("ack-went-backwards".into(), format!("log #{}: ack_nr {} after ack_nr {}", r.idx, p.ack, pa))), vec![], false, 0);
                    }
                }
                prev_ack = Some(p.ack);
                // (b) never acknowledges what it has not received in order — and the FIN's number is the last one of the
                // stream: whatever arrives numbered beyond it is not part of it
                let contig = fin_rel.map_or(contig, |f| contig.min(f));
                if a > contig {
                    return (Some(("ack-overstates".into(), format!("log #{}: ack_nr {} (rel {a}) but the highest contiguous seq delivered to the endpoint is rel {contig} (seq {})", r.idx, p.ack, first.wrapping_add(contig as u16)))), vec![], false, 0);
                }
                last_tx_ack_rel = a;
                // (c) SACK bits
                let bits = p.sack_bits();
                let has_sack = p.last_ext(1).is_some();
                let mut sacked_bytes: i64 = 0;
                for (i, b) in bits.iter().enumerate() {
                    let k = a + 2 + i as i32;
                    if *b {
                        emitted_sack_nonzero = true;
                        match got.get(&k) {
                            Some(l) if k > a => sacked_bytes += *l as i64,
                            _ => return (Some(("sack-bit-overstates".into(), format!("log #{}: SACK bit {i} (seq {}) is set but that packet was never delivered (ack_nr {})", r.idx, p.ack.wrapping_add(2 + i as u16), p.ack))), vec![], false, 0),
                        }
                    }
                }
                if has_sack { sack_seen = true; }
                if case.discipline && (has_sack || p.ptype == refparse::ST_STATE) {
                    // exact: bit i set <=> seq ack+2+i held out of order (within 64)
                    let want: Vec<bool> = (0..64).map(|i| { let k = a + 2 + i; k > contig && got.contains_key(&k) && fin_rel != Some(k) || (k > contig && fin_rel == Some(k) && false) }).collect();
                    let any_want = want.iter().any(|b| *b);
                    if a == contig || a < contig {
                        // bits are defined relative to this packet's ack_nr; when the ack lags
                        // behind (delayed ACK) the held set above it still has to be reported exactly
                    }
                    let want_rel: Vec<bool> = (0..64).map(|i| { let k = a + 2 + i; got.contains_key(&k) && !fin_rel.is_some_and(|f| k >= f) }).collect();
                    let settled: Vec<bool> = (0..64).map(|i| { let k = a + 2 + i; arrived_at.get(&k).is_some_and(|t| *t < r.t_us) }).collect();
                    let _ = (want, any_want);
                    if has_sack {
                        for i in 0..64usize {
                            let b = bits.get(i).copied().unwrap_or(false);
                            // a seq at or below `contig` but above this packet's ack is also "held"
                            if b != want_rel[i] && (a + 2 + i as i32) > contig && (b || settled[i]) {
                                return (Some(("sack-bits-not-exact".into(), format!("log #{}: SACK bit {i} (seq {}) is {} but the endpoint {} that packet out of order (ack_nr {}, bits {:?})", r.idx, p.ack.wrapping_add(2 + i as u16), b, if want_rel[i] { "holds" } else { "does not hold" }, p.ack, p.last_ext(1)))), vec![], false, 0);
                            }
                        }
                    } else if p.ptype == refparse::ST_STATE && a == contig && (0..64).any(|i| want_rel[i as usize] && settled[i as usize]) {
                        return (Some(("sack-missing".into(), format!("log #{}: pure ACK {} without a selective-ACK extension although the endpoint holds out-of-order packets within 64 of it", r.idx, p.short()))), vec![], false, 0);
                    }
                }
                // (d) advertised window vs free space
                let acked_bytes: i64 = got.range(0..(a + 1).max(0)).map(|(_, l)| *l as i64).sum();
                let read_so_far: usize = reads.iter().filter(|(o, _)| *o < r.ord).map(|(_, n)| *n).sum();
                // bytes popped from the receive queue: whole messages, the last possibly partially read
                let mut popped: i64 = 0;
                if read_so_far > 0 {
                    let mut acc = 0usize;
                    for (_, l) in got.range(0..) {
                        if acc >= read_so_far { break; }
                        acc += *l;
                        popped = acc as i64;
                    }
                    if popped as usize > read_so_far { labels.insert("partial_read_pending"); }
                }
                let held = acked_bytes + sacked_bytes - popped;
                max_held = max_held.max(held);
                let dropped = reader_dropped_ord.is_some_and(|o| o < r.ord);
                if dropped { labels.insert("reader_dropped"); }
                if !dropped && (p.wnd as i64) > (rx_buf - held).max(0) {
                    return (Some(("window-overstates".into(), format!("log #{}: advertised window {} but the receive buffer of {} bytes holds at least {} bytes (acked {} + selectively acked {} - popped by the reader {})", r.idx, p.wnd, rx_buf, held, acked_bytes, sacked_bytes, popped))), vec![], false, 0);
                }
                if p.wnd == 0 && p.ptype != refparse::ST_RESET { labels.insert("window_zero"); }
                fp.add(((a.max(-1) as u64) << 8) ^ bits.iter().filter(|b| **b).count() as u64);
                fp.add((p.wnd as u64 * 16 / (rx_buf as u64).max(1)).min(17));
            }
        }
    }
    // (e) bytes read are the concatenation, in seq order, of the delivered payloads
    let mut expect: Vec<u8> = Vec::new();
    for (k, l) in got.range(0..) {
        if *k > contig || fin_rel.is_some_and(|f| *k >= f) { break; }
        expect.extend(peer_payload(case.key, first.wrapping_add(*k as u16), *l));
    }
    let n = res.read_data.len();
    if n > expect.len() || res.read_data[..] != expect[..n] {
        let at = res.read_data.iter().zip(expect.iter()).position(|(a, b)| a != b).unwrap_or(expect.len().min(n));
        return (Some(("read-not-concatenation".into(), format!("bytes read ({n}) are not a prefix of the in-order concatenation of delivered payloads ({} bytes): first difference at {at}", expect.len()))), vec![], false, 0);
    }
    let reader_alive = reader_dropped_ord.is_none();
    let final_ack = last_tx_ack_rel;
    let final_acked_bytes: usize = got.range(0..(final_ack + 1).max(0)).filter(|(k, _)| !fin_rel.is_some_and(|f| **k >= f)).map(|(_, l)| *l).sum();
    let drained = res.app.iter().any(|a| matches!(a.ev, AppEv::Eof)) || true;
    if case.discipline && reader_alive && res.read_err.is_none() && drained && res.established {
        // the final steps drain the reader and wait: acked data must have reached it
        if n < final_acked_bytes {
            return (Some(("acked-data-not-delivered".into(), format!("the endpoint acknowledged up to rel seq {final_ack} ({final_acked_bytes} bytes) but the reader, which drained the stream, obtained only {n} bytes"))), vec![], false, 0);
        }
    }
    if case.discipline && res.established && res.read_err.is_none() && reader_alive {
        // (f) a sender that respects the window is never dropped: everything sent is acked at the end
        let highest_sent = got.keys().next_back().copied().unwrap_or(-1);
        if contig == highest_sent && final_ack < contig {
            return (Some(("data-never-acked".into(), format!("the peer respected the advertised window, delivered every seq up to rel {contig}, the reader drained, yet the last ack_nr emitted is rel {final_ack}"))), vec![], false, 0);
        }
        if max_held > rx_buf {
            return (Some(("buffer-overflow".into(), format!("held bytes {max_held} exceed the configured receive buffer {rx_buf}"))), vec![], false, 0);
        }
    }
    if sack_seen { labels.insert("sack_emitted"); }
    if res.skipped_data_ops > 0 { labels.insert("peer_held_back_by_window"); }
    let any_read = !reads.is_empty();
    let nontrivial = ooo_seen && emitted_sack_nonzero && any_read;
    (None, labels.into_iter().collect(), nontrivial, fp.get())
}

pub struct Sp<const HOSTILE: bool>;
impl<const HOSTILE: bool> CheckDef for Sp<HOSTILE> {
    type Case = Case;
    const NAME: &'static str = if HOSTILE { "sp-hostile" } else { "sp-disciplined" };
    fn strategy(tier: Tier) -> BoxedStrategy<Case> {
        rxgen::strategy(RxGen { early_shutdown: HOSTILE, hostile: HOSTILE, max_steps: tier.pick(60, 150), with_writes: false, long_idle: false, fin_retx: false }).prop_map(|sp| Case { sp }).boxed()
    }
    fn run(case: &Case, trace: bool) -> Outcome {
        let res = sp::run(&case.sp, trace);
        if !res.established {
            return Outcome::discard(format!("handshake did not complete: {:?}", res.handshake_err));
        }
        let (v, labels, nontrivial, fp) = oracle(&case.sp, &res);
        if let Some((sig, detail)) = v {
            return Outcome::violation(format!("sp/{sig}"), detail);
        }
        let mut o = Outcome::pass();
        o.labels = labels;
        o.nontrivial = nontrivial;
        o.fingerprint = fp;
        o
    }
}

pub fn run(ctx: &mut Ctx) {
    ctx.rule("SP: scripted peer sends data in generated arrival orders (in order, gaps, gap fills, duplicates, beyond the window, after FIN — hostile class: data numbered beyond the peer's own FIN while the endpoint's FIN is outstanding —; sizes 1..max datagram, ISN incl. wrap) against generated reader behaviours (fast, slow, stopped, dropped) and rx-buffer/MTU configurations; classes disciplined (peer respects the advertised window and slot capacity; exact clauses) and hostile (anything; one-sided clauses). Oracle on every emitted datagram: ack monotone, ack <= highest contiguous delivered, SACK bits subset of / equal to held out-of-order set, wnd <= rx_buf - held, bytes read == in-order concatenation, acked data reaches a draining reader. non-trivial = >=1 out-of-order arrival, >=1 SACK bit emitted, >=1 read; distinct by hash of the (ack, #sack bits, window bucket) sequence");
    ctx.assume("socket<->peer latency 0; the peer's stimuli are built by the harness's own encoder");
    ctx.replay_corpus::<Sp<false>>();
    ctx.replay_corpus::<Sp<true>>();
    ctx.run_generated::<Sp<false>>(ctx.tier.pick(40_000, 1_500_000));
    ctx.run_generated::<Sp<true>>(ctx.tier.pick(30_000, 1_000_000));
}

pub fn replay(v: &Value) -> Option<i32> {
    replay_file::<Sp<false>>("C04", v).or_else(|| replay_file::<Sp<true>>("C04", v))
}
