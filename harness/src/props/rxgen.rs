//! Generator of receiver-side SP scenarios (scripted peer sends data; reader schedules vary).
//! Shared by C04 (receiver honesty) and C07 (acknowledgement timeliness).
use proptest::prelude::*;

use crate::props::gens;
use crate::sim::{
    SockCfg,
    app::{ROp, WOp},
    sp::{PeerOp, SpCase, Step},
};

#[derive(Clone, Copy, Debug)]
pub struct RxGen {
    /// the receiving application may shut its own direction down early (its FIN is then acknowledged by the
    /// peer's data packets: receiving continues in the half-closed states)
    pub early_shutdown: bool,
    pub hostile: bool,
    pub max_steps: usize,
    pub with_writes: bool,
    pub long_idle: bool,
    /// the application may shut down early and the peer may retransmit its FIN (C07: "when a duplicate / a FIN arrives")
    pub fin_retx: bool,
}

fn rx_sock_cfg() -> BoxedStrategy<SockCfg> {
    any::<bool>()
        .prop_flat_map(|v6| {
            (
                gens::link_mtu(v6),
                // rx buffer in segments of the *largest* payload (small enough to close the window often) or bytes
                prop_oneof![3 => (1u32..12).prop_map(|s| (s, true)), 2 => (2000u32..300_000).prop_map(|b| (b, false)), 1 => Just((1u32 << 20, false))],
                gens::rnd_stream(),
            )
                .prop_map(move |(link_mtu, (rx, in_segments), rnd)| {
                    let mut c = SockCfg { v6, link_mtu, rnd, ..SockCfg::default() };
                    c.rx_buf = if in_segments { rx * c.max_payload().max(1) as u32 } else { rx };
                    c
                })
        })
        .boxed()
}

pub fn strategy(g: RxGen) -> BoxedStrategy<SpCase> {
    (rx_sock_cfg(), any::<bool>(), prop_oneof![3 => any::<u16>(), 1 => (65490u32..65536).prop_map(|x| x as u16)], any::<u16>(), any::<u64>(), 0u8..4)
        .prop_flat_map(move |(sock, incoming, peer_isn, conn_id, key, reader_kind)| {
            let maxp = sock.max_payload().max(1) as u16;
            let minp = sock.min_payload().max(1) as u16;
            let len = if g.hostile {
                prop_oneof![2 => Just(1u16), 2 => 1u16..=maxp, 2 => Just(minp), 2 => Just(maxp), 1 => 1u16..16000].boxed()
            } else {
                prop_oneof![1 => Just(1u16), 2 => 1u16..=maxp, 3 => Just(minp), 2 => Just(maxp)].boxed()
            };
            let dseq = if g.hostile {
                prop_oneof![10 => Just(0i16), 4 => 1i16..8, 2 => -6i16..0, 1 => 8i16..70, 1 => 70i16..3000, 1 => any::<i16>()].boxed()
            } else {
                prop_oneof![12 => Just(0i16), 4 => 1i16..8, 2 => -6i16..0, 1 => 8i16..70].boxed()
            };
            let adv = prop_oneof![4 => Just(1u32), 2 => Just(5u32), 1 => Just(39u32), 1 => Just(40u32), 1 => Just(41u32), 1 => Just(100u32), 1 => Just(1000u32), 1 => 1u32..300];
            let idle = if g.long_idle { prop_oneof![5000u32..120_000].boxed() } else { (200u32..400).boxed() };
            let bufsz = prop_oneof![1 => 1u32..16, 2 => 16u32..2048, 3 => 2048u32..65536];
            let read = (1u32..30_000, bufsz.clone()).prop_map(|(n, buf)| Step::R(ROp::Read { n, buf }));
            let w_read = match reader_kind { 0 => 0u32, 1 => 2, _ => 6 }; // stopped / slow / normal
            let mut choices: Vec<(u32, BoxedStrategy<Step>)> = vec![
                (20, (dseq, len).prop_map(|(dseq, len)| Step::Peer(PeerOp::Data { dseq, len })).boxed()),
                (6, adv.prop_map(Step::Adv).boxed()),
                (1, idle.prop_map(Step::Adv).boxed()),
            ];
            if w_read > 0 {
                choices.push((w_read, read.boxed()));
            }
            if g.with_writes {
                choices.push((2, (1u32..3000).prop_map(|n| Step::W(WOp::Write { n, chunk: 65536 })).boxed()));
                choices.push((2, (0i16..3, prop_oneof![Just(1u32 << 20), Just(100_000u32)]).prop_map(|(back, wnd)| Step::Peer(PeerOp::Ack { back, wnd, sack: None })).boxed()));
            }
            if g.early_shutdown {
                choices.push((1, Just(Step::W(WOp::Shutdown)).boxed()));
                choices.push((3, (prop_oneof![4 => Just(0i16), 1 => 1i16..4], 1u16..=maxp).prop_map(|(dseq, len)| Step::Peer(PeerOp::DataAck { dseq, len })).boxed()));
                choices.push((1, (1i16..4).prop_map(|dseq| Step::Peer(PeerOp::Fin { dseq })).boxed()));
            }
            if g.fin_retx {
                choices.push((1, Just(Step::W(WOp::Shutdown)).boxed()));
                choices.push((2, Just(Step::Peer(PeerOp::FinRetx)).boxed()));
            }
            if g.hostile {
                // data numbered right after the peer's own FIN (only generated for the C04 classes that close early: the
                // interesting state is the one in which the endpoint's own FIN is still unacknowledged)
                if g.early_shutdown { choices.push((1, (0u8..2, 1u16..=maxp).prop_map(|(d, len)| Step::Peer(PeerOp::DataAfterFin { d, len })).boxed())); }
                choices.push((1, (-3i16..6).prop_map(|dseq| Step::Peer(PeerOp::Fin { dseq })).boxed()));
            } else {
                choices.push((1, Just(Step::Peer(PeerOp::Fin { dseq: 0 })).boxed()));
            }
            let step = proptest::strategy::Union::new_weighted(choices);
            let pre: Vec<Step> = match reader_kind {
                3 => vec![Step::R(ROp::ReadToEnd { buf: 65536 })], // fast reader from the start
                _ => vec![],
            };
            (prop::collection::vec(step, 1..g.max_steps), prop::bool::weighted(0.15), bufsz)
                .prop_map(move |(mut steps, drop_reader, buf)| {
                    let mut all = pre.clone();
                    if drop_reader && reader_kind != 3 {
                        let at = steps.len() / 2;
                        steps.insert(at, Step::R(ROp::Drop));
                    }
                    all.append(&mut steps);
                    // final drain: the reader reads everything, then the connection goes quiet
                    all.push(Step::Adv(100));
                    all.push(Step::R(ROp::ReadToEnd { buf }));
                    all.push(Step::Adv(300));
                    SpCase { sock: sock.clone(), incoming, peer_isn, conn_id, peer_wnd: 1 << 20, complete_handshake: true, key, steps: all, linger_ms: 200, discipline: !g.hostile, bystander: None }
                })
        })
        .boxed()
}
