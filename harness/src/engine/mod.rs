//! Generic machinery shared by all property checks: seeding, sharded proptest runs, shrinking,
//! replay files, known-findings handling, evidence files, panic capture and the watchdog.

use std::{
    cell::RefCell,
    collections::{BTreeMap, BTreeSet},
    fmt::Debug,
    panic::AssertUnwindSafe,
    path::{Path, PathBuf},
    sync::{
        Arc,
        atomic::{AtomicBool, AtomicU64, Ordering},
    },
    time::Instant,
};

use parking_lot::Mutex;
use proptest::{
    strategy::{BoxedStrategy, Strategy, ValueTree},
    test_runner::{Config, RngAlgorithm, TestCaseError, TestError, TestRng, TestRunner},
};
use serde::{Serialize, de::DeserializeOwned};
use serde_json::{Value, json};

pub const SHARDS: usize = 16;
pub const VERIF_ROOT: &str = "/verif";

#[derive(Clone, Copy, Debug, PartialEq, Eq)]
pub enum Tier {
    Quick,
    Thorough,
}

impl Tier {
    pub fn name(self) -> &'static str {
        match self {
            Tier::Quick => "quick",
            Tier::Thorough => "thorough",
        }
    }
    /// pick(quick, thorough)
    pub fn pick<T>(self, q: T, t: T) -> T {
        match self {
            Tier::Quick => q,
            Tier::Thorough => t,
        }
    }
}

#[derive(Clone, Debug)]
pub enum Verdict {
    Pass,
    /// The generated case violated a stated precondition of the check (counted, capped).
    Discard(String),
    /// The property was violated. `signature` identifies the *kind* of failure for the
    /// known-findings file; `detail` is the human-readable explanation.
    Violation { signature: String, detail: String },
}

#[derive(Clone, Debug)]
pub struct Outcome {
    pub verdict: Verdict,
    pub labels: Vec<&'static str>,
    pub nontrivial: bool,
    /// behavioural fingerprint used for distinct counting
    pub fingerprint: u64,
    /// number of generator choices suppressed by a known-finding guard in this case
    pub excluded_by_known_finding: u64,
    /// free-form numeric observations merged (max) into evidence
    pub stats: Vec<(&'static str, u64)>,
    /// violations the oracle noted but did not stop at: (signature, detail). Each must match a
    /// `known` entry of known_findings.json (then it is counted and the case goes on being
    /// checked behind it); otherwise the first one becomes the case's verdict.
    pub soft: Vec<(String, String)>,
}

impl Outcome {
    pub fn pass() -> Self {
        Outcome {
            verdict: Verdict::Pass,
            labels: vec![],
            nontrivial: false,
            fingerprint: 0,
            excluded_by_known_finding: 0,
            stats: vec![],
            soft: vec![],
        }
    }
    pub fn violation(signature: impl Into<String>, detail: impl Into<String>) -> Self {
        let mut o = Self::pass();
        o.verdict = Verdict::Violation {
            signature: signature.into(),
            detail: detail.into(),
        };
        o
    }
    pub fn discard(why: impl Into<String>) -> Self {
        let mut o = Self::pass();
        o.verdict = Verdict::Discard(why.into());
        o
    }
    pub fn is_violation(&self) -> bool {
        matches!(self.verdict, Verdict::Violation { .. })
    }
}

/// One generated sub-check of a property.
pub trait CheckDef: 'static {
    type Case: Serialize + DeserializeOwned + Debug + Clone + Send + 'static;
    /// short name, unique within the property (goes into replay files)
    const NAME: &'static str;
    fn strategy(tier: Tier) -> BoxedStrategy<Self::Case>;
    /// Runs the case through interpreter + oracle. `trace` = print annotated trace (replay).
    fn run(case: &Self::Case, trace: bool) -> Outcome;
    /// true for a check whose run also depends on an interleaving sampled by the operating system (real threads):
    /// its oracle must be schedule-independent (a violation under any interleaving is a violation), but a failing
    /// case need not fail again when re-run, so the first observation stands and shrinking only keeps candidates
    /// that happen to fail again.
    const SCHEDULE_SAMPLED: bool = false;
}

// ------------------------------------------------------------------------------------------
// hashing / seeds

pub fn splitmix64(mut x: u64) -> u64 {
    x = x.wrapping_add(0x9E3779B97F4A7C15);
    let mut z = x;
    z = (z ^ (z >> 30)).wrapping_mul(0xBF58476D1CE4E5B9);
    z = (z ^ (z >> 27)).wrapping_mul(0x94D049BB133111EB);
    z ^ (z >> 31)
}

pub fn fnv64(bytes: &[u8]) -> u64 {
    let mut h: u64 = 0xcbf29ce484222325;
    for b in bytes {
        h ^= *b as u64;
        h = h.wrapping_mul(0x100000001b3);
    }
    h
}

/// Order-sensitive hasher for behavioural fingerprints.
#[derive(Clone, Copy)]
pub struct Fp(pub u64);
impl Default for Fp {
    fn default() -> Self {
        Fp(0x1234_5678_9abc_def0)
    }
}
impl Fp {
    pub fn add(&mut self, v: u64) {
        self.0 = splitmix64(self.0 ^ v.wrapping_mul(0x9E3779B97F4A7C15));
    }
    pub fn add_str(&mut self, s: &str) {
        self.add(fnv64(s.as_bytes()));
    }
    pub fn get(&self) -> u64 {
        self.0
    }
}

fn rng_for(seed: u64, id: &str, check: &str, shard: usize) -> TestRng {
    let s = splitmix64(seed ^ fnv64(id.as_bytes()) ^ fnv64(check.as_bytes()).rotate_left(17) ^ ((shard as u64) << 48));
    let mut bytes = [0u8; 32];
    let mut x = s;
    for chunk in bytes.chunks_mut(8) {
        x = splitmix64(x);
        chunk.copy_from_slice(&x.to_le_bytes());
    }
    TestRng::from_seed(RngAlgorithm::ChaCha, &bytes)
}

// ------------------------------------------------------------------------------------------
// panic capture: library panics inside spawned tokio tasks are swallowed by tokio; the hook
// records them per thread so that the case runner can see them.

thread_local! {
    static PANICS: RefCell<Vec<String>> = const { RefCell::new(Vec::new()) };
    static CURRENT_CASE: RefCell<Option<(Instant, String)>> = const { RefCell::new(None) };
}

static HOOK_INSTALLED: AtomicBool = AtomicBool::new(false);
static PANIC_TRACE: AtomicBool = AtomicBool::new(false);

pub fn install_panic_hook() {
    if HOOK_INSTALLED.swap(true, Ordering::SeqCst) {
        return;
    }
    std::panic::set_hook(Box::new(|info| {
        let msg = if let Some(s) = info.payload().downcast_ref::<&str>() {
            s.to_string()
        } else if let Some(s) = info.payload().downcast_ref::<String>() {
            s.clone()
        } else {
            "<non-string panic>".to_string()
        };
        let loc = info
            .location()
            .map(|l| format!("{}:{}", l.file(), l.line()))
            .unwrap_or_default();
        if PANIC_TRACE.load(Ordering::Relaxed) || std::env::var("UTPVERIF_PANIC_TRACE").is_ok() {
            eprintln!("[panic captured] {msg} @ {loc}");
        }
        // attribute the panic: innermost frame that belongs to the crate under test or to the harness
        let bt = std::backtrace::Backtrace::force_capture().to_string();
        let mut origin = "unknown";
        for line in bt.lines() {
            let l = line.trim_start();
            if let Some(path) = l.strip_prefix("at ") {
                // source location of the frame above (present whenever line tables are)
                if path.starts_with("/repo/") {
                    origin = "lib";
                    break;
                }
                if path.starts_with("/verif/harness/src/") && !path.starts_with("/verif/harness/src/engine/") {
                    origin = "harness";
                    break;
                }
                continue;
            }
            // "<n>: <function path><generic args>": look at the function's own path only (generic arguments of
            // library functions name harness types)
            let name = l.split_once(": ").map(|x| x.1).unwrap_or(l);
            let name = name.trim_start_matches('<');
            let own = name.split('<').next().unwrap_or(name);
            if own.starts_with("librqbit_utp::") {
                origin = "lib";
                break;
            }
            if own.starts_with("utpverif::") && !own.starts_with("utpverif::engine") {
                origin = "harness";
                break;
            }
        }
        if std::env::var("UTPVERIF_PANIC_BT").is_ok() {
            eprintln!("[panic backtrace]\n{bt}");
        }
        PANICS.with(|p| p.borrow_mut().push(format!("{msg} @ {loc} [origin:{origin}]")));
    }));
}

pub fn take_panics() -> Vec<String> {
    PANICS.with(|p| std::mem::take(&mut *p.borrow_mut()))
}

/// Run `f`, converting a panic on this thread into Err(message). Panics recorded by the hook
/// (including those swallowed by tokio tasks) are returned alongside.
pub fn catch<T>(f: impl FnOnce() -> T) -> (Option<T>, Vec<String>) {
    let _ = take_panics();
    let r = std::panic::catch_unwind(AssertUnwindSafe(f));
    let panics = take_panics();
    (r.ok(), panics)
}

// ------------------------------------------------------------------------------------------
// known findings

#[derive(Clone, Debug, serde::Deserialize)]
pub struct FindingEntry {
    pub id: String,
    pub property: String,
    pub status: String, // "known" | "fixed"
    pub signature: String,
    pub description: String,
    #[serde(default)]
    pub commit: Option<String>,
}

#[derive(Clone, Debug, Default)]
pub struct Findings {
    pub entries: Vec<FindingEntry>,
}

impl Findings {
    pub fn load() -> Self {
        let p = Path::new(VERIF_ROOT).join("known_findings.json");
        match std::fs::read_to_string(&p) {
            Ok(s) => {
                #[derive(serde::Deserialize)]
                struct F {
                    findings: Vec<FindingEntry>,
                }
                match serde_json::from_str::<F>(&s) {
                    Ok(f) => Findings { entries: f.findings },
                    Err(e) => {
                        eprintln!("ENGINE-ERROR: cannot parse known_findings.json: {e}");
                        std::process::exit(2);
                    }
                }
            }
            Err(_) => Findings::default(),
        }
    }
    /// Is there a `known` (not fixed) entry with this signature for this property?
    pub fn known(&self, property: &str, signature: &str) -> Option<&FindingEntry> {
        // witness hunting (never set by registered commands): treat one signature as unlisted so
        // that it is reported, shrunk and saved like any violation
        if std::env::var("UTPVERIF_HUNT").is_ok_and(|s| s == signature) {
            return None;
        }
        self.entries
            .iter()
            .find(|e| e.status == "known" && e.property == property && e.signature == signature)
    }
    /// Guards are active only while an entry is `known`.
    pub fn guard_active(&self, signature: &str) -> bool {
        if std::env::var("UTPVERIF_NO_GUARD").is_ok() {
            return false;
        }
        self.entries
            .iter()
            .any(|e| e.status == "known" && e.signature == signature)
    }
}

static CURRENT_PROPERTY: Mutex<&'static str> = Mutex::new("");
pub fn set_current_property(id: &'static str) {
    *CURRENT_PROPERTY.lock() = id;
}
pub fn current_property() -> &'static str {
    *CURRENT_PROPERTY.lock()
}

static FINDINGS: std::sync::OnceLock<Findings> = std::sync::OnceLock::new();
pub fn findings() -> &'static Findings {
    FINDINGS.get_or_init(Findings::load)
}

// ------------------------------------------------------------------------------------------
// run context / evidence

#[derive(Default)]
struct CheckAgg {
    evaluations: u64,
    discards: u64,
    nontrivial: BTreeSet<u64>,
    labels: BTreeMap<&'static str, u64>,
    stats: BTreeMap<&'static str, u64>,
    excluded: u64,
    samples: Vec<Value>,
    corpus_replayed: u64,
    /// cases that are distinct by construction (exhaustive enumerations) and non-trivial
    distinct_by_construction: u64,
}

pub struct Ctx {
    pub id: &'static str,
    pub tier: Tier,
    pub seed: u64,
    pub level: &'static str,
    started: Instant,
    aggs: BTreeMap<String, CheckAgg>,
    rules: Vec<String>,
    assumptions: Vec<String>,
    pub violations: Vec<(String, PathBuf, String)>, // (signature, replay path, detail)
    pub known_hits: BTreeMap<String, (String, u64)>, // signature -> (description, count)
    extra: BTreeMap<String, Value>,
    exhaustive: bool,
    engine_errors: Vec<String>,
}

pub struct Floor {
    pub label: &'static str,
    pub min_count: u64,
}

impl Ctx {
    pub fn new(id: &'static str, tier: Tier, seed: u64) -> Self {
        set_current_property(id);
        Ctx {
            id,
            tier,
            seed,
            level: "exploration",
            started: Instant::now(),
            aggs: BTreeMap::new(),
            rules: vec![],
            assumptions: vec![],
            violations: vec![],
            known_hits: BTreeMap::new(),
            extra: BTreeMap::new(),
            exhaustive: false,
            engine_errors: vec![],
        }
    }

    pub fn rule(&mut self, r: &str) {
        self.rules.push(r.to_string());
    }
    pub fn assume(&mut self, a: &str) {
        self.assumptions.push(a.to_string());
    }
    pub fn extra(&mut self, k: &str, v: Value) {
        self.extra.insert(k.to_string(), v);
    }
    pub fn set_exhaustive(&mut self, e: bool) {
        self.exhaustive = e;
    }
    pub fn set_level(&mut self, l: &'static str) {
        self.level = l;
    }
    pub fn engine_error(&mut self, e: String) {
        eprintln!("ENGINE-ERROR: {e}");
        self.engine_errors.push(e);
    }

    fn agg(&mut self, name: &str) -> &mut CheckAgg {
        self.aggs.entry(name.to_string()).or_default()
    }

    pub fn label_count(&self, check: &str, label: &str) -> u64 {
        self.aggs
            .get(check)
            .and_then(|a| a.labels.get(label).copied())
            .unwrap_or(0)
    }

    /// Record outcomes of a hand-rolled (non-proptest) enumeration.
    pub fn record_manual(
        &mut self,
        check: &str,
        evaluations: u64,
        nontrivial_fps: impl IntoIterator<Item = u64>,
        labels: impl IntoIterator<Item = (&'static str, u64)>,
        samples: Vec<Value>,
        distinct_by_construction: u64,
    ) {
        let a = self.agg(check);
        a.evaluations += evaluations;
        a.distinct_by_construction += distinct_by_construction;
        a.nontrivial.extend(nontrivial_fps);
        for (l, c) in labels {
            *a.labels.entry(l).or_default() += c;
        }
        for s in samples {
            if a.samples.len() < 5 {
                a.samples.push(s);
            }
        }
    }

    /// Report a violation found by a hand-rolled enumeration (case must be replayable through
    /// `replay_case::<C>`).
    pub fn report_violation<C: CheckDef>(&mut self, case: &C::Case, signature: &str, detail: &str) {
        self.handle_violation::<C>(case, None, signature, detail);
    }

    fn handle_violation<C: CheckDef>(
        &mut self,
        case: &C::Case,
        original: Option<&C::Case>,
        signature: &str,
        detail: &str,
    ) {
        if signature == "harness-panic" {
            let path = write_replay::<C>(self.id, case, original, signature, detail);
            self.engine_error(format!("harness panic (case saved to {}): {detail}", path.display()));
            return;
        }
        if let Some(e) = findings().known(self.id, signature) {
            let ent = self
                .known_hits
                .entry(signature.to_string())
                .or_insert((e.description.clone(), 0));
            ent.1 += 1;
            return;
        }
        // one replay per distinct signature, at most 5 in total
        if self.violations.iter().any(|(s, _, _)| s == signature) || self.violations.len() >= 5 {
            return;
        }
        let path = write_replay::<C>(self.id, case, original, signature, detail);
        self.violations
            .push((signature.to_string(), path, detail.to_string()));
    }

    /// Replay every committed corpus file of this check first (regression inputs and
    /// known-finding witnesses).
    pub fn replay_corpus<C: CheckDef>(&mut self) {
        let dir = Path::new(VERIF_ROOT).join("corpus").join(self.id);
        let Ok(rd) = std::fs::read_dir(&dir) else {
            return;
        };
        let mut files: Vec<PathBuf> = rd.filter_map(|e| e.ok()).map(|e| e.path()).collect();
        files.sort();
        for f in files {
            if f.extension().and_then(|e| e.to_str()) != Some("json") {
                continue;
            }
            let Ok(text) = std::fs::read_to_string(&f) else {
                continue;
            };
            let Ok(v) = serde_json::from_str::<Value>(&text) else {
                self.engine_error(format!("corpus file {} is not JSON", f.display()));
                continue;
            };
            if v.get("check").and_then(|c| c.as_str()) != Some(C::NAME) {
                continue;
            }
            let case: C::Case = match serde_json::from_value(v["case"].clone()) {
                Ok(c) => c,
                Err(e) => {
                    self.engine_error(format!("corpus file {}: bad case: {e}", f.display()));
                    continue;
                }
            };
            let out = run_guarded::<C>(&case, false);
            let a = self.agg(C::NAME);
            a.corpus_replayed += 1;
            a.evaluations += 1;
            if out.nontrivial {
                a.nontrivial.insert(out.fingerprint);
            }
            for l in &out.labels {
                *a.labels.entry(l).or_default() += 1;
            }
            let expect = v.get("expect").and_then(|e| e.as_str()).unwrap_or("pass");
            let mut soft_known = false;
            for (sig, _) in &out.soft {
                if let Some(e) = findings().known(self.id, sig) {
                    soft_known = true;
                    let ent = self.known_hits.entry(sig.clone()).or_insert((e.description.clone(), 0));
                    ent.1 += 1;
                }
            }
            match (&out.verdict, expect) {
                (Verdict::Pass, "known-finding") if soft_known => {}
                (Verdict::Violation { signature, detail }, _) => {
                    // a witness of a `known` finding prints KNOWN-FINDING; anything else
                    // (including a witness of a `fixed` finding) is a violation.
                    let (s, d) = (signature.clone(), detail.clone());
                    self.handle_violation::<C>(&case, None, &s, &d);
                }
                (_, "known-finding") => {
                    // The witness no longer fails: the finding seems repaired. Not an alarm,
                    // but tell the operator so the entry can be flipped to `fixed`.
                    eprintln!(
                        "NOTE: witness {} no longer violates; known finding may be repaired",
                        f.display()
                    );
                }
                _ => {}
            }
        }
    }

    /// Sharded generated search for one sub-check.
    pub fn run_generated<C: CheckDef>(&mut self, cases_total: u64) {
        let shards = SHARDS;
        let per_shard = cases_total.div_ceil(shards as u64);
        let tier = self.tier;
        let seed = self.seed;
        let id = self.id;
        let max_shrink: u32 = std::env::var("VERIF_MAX_SHRINK")
            .ok()
            .and_then(|s| s.parse().ok())
            .unwrap_or(2048);

        struct ShardResult<K> {
            agg: CheckAgg,
            failure: Option<(K, K, String, String)>, // shrunk, original, signature, detail
            known: Vec<(String, u64)>,
            engine_errors: Vec<String>,
        }

        let results: Vec<ShardResult<C::Case>> = std::thread::scope(|scope| {
            let mut handles = vec![];
            for shard in 0..shards {
                handles.push(
                    std::thread::Builder::new()
                        .name(format!("shard{shard}"))
                        .stack_size(16 << 20)
                        .spawn_scoped(scope, move || {
                            install_panic_hook();
                            let strategy = C::strategy(tier);
                            let mut runner = TestRunner::new_with_rng(
                                Config {
                                    cases: 1,
                                    failure_persistence: None,
                                    max_shrink_iters: max_shrink,
                                    ..Config::default()
                                },
                                rng_for(seed, id, C::NAME, shard),
                            );
                            let mut agg = CheckAgg::default();
                            let mut failure = None;
                            let mut known: BTreeMap<String, u64> = BTreeMap::new();
                            let mut engine_errors = vec![];
                            let mut i = 0u64;
                            while i < per_shard {
                                i += 1;
                                let tree = match strategy.new_tree(&mut runner) {
                                    Ok(t) => t,
                                    Err(e) => {
                                        engine_errors.push(format!("strategy rejected: {e}"));
                                        break;
                                    }
                                };
                                let case = tree.current();
                                let t_case = Instant::now();
                                let out = run_guarded::<C>(&case, false);
                                let ms = t_case.elapsed().as_millis() as u64;
                                let e = agg.stats.entry("max_case_wall_ms").or_default();
                                *e = (*e).max(ms);
                                agg.evaluations += 1;
                                agg.excluded += out.excluded_by_known_finding;
                                for (k, v) in &out.stats {
                                    let e = agg.stats.entry(k).or_default();
                                    *e = (*e).max(*v);
                                }
                                for (sig, _) in &out.soft {
                                    if findings().known(id, sig).is_some() {
                                        *known.entry(sig.clone()).or_default() += 1;
                                    }
                                }
                                match &out.verdict {
                                    Verdict::Pass => {
                                        if out.nontrivial {
                                            agg.nontrivial.insert(out.fingerprint);
                                        }
                                        for l in &out.labels {
                                            *agg.labels.entry(l).or_default() += 1;
                                        }
                                        if agg.samples.len() < 2
                                            || (out.nontrivial && agg.samples.len() < 4 && i % 7 == 0)
                                        {
                                            if shard == 0 {
                                                agg.samples.push(sample_value(&case));
                                            }
                                        }
                                    }
                                    Verdict::Discard(_) => {
                                        agg.discards += 1;
                                    }
                                    Verdict::Violation { signature, .. } => {
                                        if findings().known(id, signature).is_some() {
                                            *known.entry(signature.clone()).or_default() += 1;
                                            continue;
                                        }
                                        // shrink: counters are frozen from here on.
                                        let sig0 = signature.clone();
                                        let detail0 = match &out.verdict { Verdict::Violation { detail, .. } => detail.clone(), _ => String::new() };
                                        let (shrunk, sig, detail) =
                                            shrink::<C>(tree, &sig0, &detail0, max_shrink);
                                        failure = Some((shrunk, case.clone(), sig, detail));
                                        break;
                                    }
                                }
                            }
                            ShardResult {
                                agg,
                                failure,
                                known: known.into_iter().collect(),
                                engine_errors,
                            }
                        })
                        .unwrap(),
                );
            }
            handles.into_iter().map(|h| h.join().unwrap()).collect()
        });

        for r in results {
            let a = self.agg(C::NAME);
            a.evaluations += r.agg.evaluations;
            a.discards += r.agg.discards;
            a.nontrivial.extend(r.agg.nontrivial);
            a.excluded += r.agg.excluded;
            for (l, c) in r.agg.labels {
                *a.labels.entry(l).or_default() += c;
            }
            for (l, c) in r.agg.stats {
                let e = a.stats.entry(l).or_default();
                *e = (*e).max(c);
            }
            for s in r.agg.samples {
                if a.samples.len() < 5 {
                    a.samples.push(s);
                }
            }
            for e in r.engine_errors {
                self.engine_error(e);
            }
            for (sig, n) in r.known {
                let desc = findings()
                    .known(self.id, &sig)
                    .map(|e| e.description.clone())
                    .unwrap_or_default();
                let ent = self.known_hits.entry(sig).or_insert((desc, 0));
                ent.1 += n;
            }
            if let Some((shrunk, orig, sig, detail)) = r.failure {
                // replay fidelity: re-execute the shrunk case from its serialised form.
                let js = serde_json::to_value(&shrunk).unwrap();
                let back: C::Case = serde_json::from_value(js).unwrap();
                let again = run_guarded::<C>(&back, false);
                if !again.is_violation() && !C::SCHEDULE_SAMPLED {
                    self.engine_error(format!(
                        "non-reproducible failure in {}/{} (signature {sig}): {detail}",
                        self.id,
                        C::NAME
                    ));
                    let _ = write_replay::<C>(self.id, &shrunk, Some(&orig), &sig, &detail);
                    continue;
                }
                self.handle_violation::<C>(&shrunk, Some(&orig), &sig, &detail);
            }
        }
        let a = self.agg(C::NAME);
        if a.evaluations > 0 && a.discards * 10 > a.evaluations {
            let (d, e) = (a.discards, a.evaluations);
            self.engine_error(format!(
                "{}: too many discards ({d} of {e}) — generator needs fixing",
                C::NAME
            ));
        }
    }

    pub fn check_floors(&mut self, check: &str, floors: &[Floor]) {
        for f in floors {
            let c = self.label_count(check, f.label);
            if c < f.min_count && self.violations.is_empty() {
                self.engine_error(format!(
                    "label floor missed: {check}/{} = {c} < {}",
                    f.label, f.min_count
                ));
            }
        }
    }

    /// Writes evidence, prints result lines and returns the process exit code.
    pub fn finish(mut self) -> i32 {
        let wall = self.started.elapsed().as_secs_f64();
        let mut evaluations = 0u64;
        let mut distinct = 0u64;
        let mut labels = serde_json::Map::new();
        let mut samples = vec![];
        let mut per_check = serde_json::Map::new();
        let mut excluded = 0u64;
        let mut corpus = 0u64;
        for (name, a) in &self.aggs {
            evaluations += a.evaluations;
            distinct += a.nontrivial.len() as u64 + a.distinct_by_construction;
            excluded += a.excluded;
            corpus += a.corpus_replayed;
            let mut l = serde_json::Map::new();
            for (k, v) in &a.labels {
                l.insert(k.to_string(), json!(v));
            }
            labels.insert(name.clone(), Value::Object(l));
            for s in &a.samples {
                if samples.len() < 8 {
                    samples.push(json!({"check": name, "case": s}));
                }
            }
            let mut st = serde_json::Map::new();
            for (k, v) in &a.stats {
                st.insert(k.to_string(), json!(v));
            }
            per_check.insert(
                name.clone(),
                json!({"evaluations": a.evaluations, "distinct_nontrivial": a.nontrivial.len() as u64 + a.distinct_by_construction,
                       "discards": a.discards, "corpus_replayed": a.corpus_replayed,
                       "excluded_by_known_finding": a.excluded, "max_stats": st}),
            );
        }
        if samples.is_empty() {
            samples.push(json!("no sample recorded"));
        }
        let mut coverage = serde_json::Map::new();
        coverage.insert("evaluations".into(), json!(evaluations));
        coverage.insert("distinct_nontrivial".into(), json!(distinct));
        coverage.insert("rule".into(), json!(self.rules.join(" | ")));
        coverage.insert("samples".into(), Value::Array(samples));
        coverage.insert("labels".into(), Value::Object(labels));
        coverage.insert("per_check".into(), Value::Object(per_check));
        coverage.insert("excluded_by_known_finding".into(), json!(excluded));
        coverage.insert("corpus_replayed".into(), json!(corpus));
        coverage.insert("shards".into(), json!(SHARDS));
        coverage.insert("exhaustive".into(), json!(self.exhaustive));
        coverage.insert(
            "known_findings_hit".into(),
            json!(
                self.known_hits
                    .iter()
                    .map(|(k, v)| json!({"signature": k, "count": v.1}))
                    .collect::<Vec<_>>()
            ),
        );
        coverage.insert("engine_errors".into(), json!(self.engine_errors));
        for (k, v) in std::mem::take(&mut self.extra) {
            coverage.insert(k, v);
        }
        let ev = json!({
            "property_id": self.id,
            "tier": self.tier.name(),
            "seed": self.seed,
            "level": self.level,
            "coverage": Value::Object(coverage),
            "assumptions": self.assumptions,
            "wall_s": wall,
            "violations": self.violations.len(),
        });
        let dir = Path::new(VERIF_ROOT).join("evidence");
        let _ = std::fs::create_dir_all(&dir);
        let path = dir.join(format!("{}.json", self.id));
        if let Err(e) = std::fs::write(&path, serde_json::to_string_pretty(&ev).unwrap()) {
            eprintln!("ENGINE-ERROR: cannot write evidence {}: {e}", path.display());
            return 2;
        }

        for (sig, (desc, n)) in &self.known_hits {
            println!("KNOWN-FINDING: property={} {sig}: {desc} (seen {n}x this run)", self.id);
        }
        if !self.violations.is_empty() {
            for (sig, path, detail) in &self.violations {
                println!("VIOLATION property={} replay={}", self.id, path.display());
                println!("  signature: {sig}");
                for line in detail.lines().take(12) {
                    println!("  {line}");
                }
            }
            return 1;
        }
        if !self.engine_errors.is_empty() {
            println!(
                "INCONCLUSIVE property={} ({} engine error(s), see stderr/evidence)",
                self.id,
                self.engine_errors.len()
            );
            return 2;
        }
        if distinct < 2 {
            println!("INCONCLUSIVE property={} (fewer than 2 non-trivial cases)", self.id);
            return 2;
        }
        println!(
            "OK property={} tier={} seed={} evaluations={} distinct_nontrivial={} wall_s={:.1}",
            self.id,
            self.tier.name(),
            self.seed,
            evaluations,
            distinct,
            wall
        );
        0
    }
}

fn sample_value<T: Serialize>(case: &T) -> Value {
    let v = serde_json::to_value(case).unwrap_or(Value::Null);
    // keep evidence files small
    let s = v.to_string();
    if s.len() > 3000 {
        json!({"truncated_json": format!("{}…", &s[..3000]), "full_len": s.len()})
    } else {
        v
    }
}

/// Runs a case catching panics on the calling thread and in tokio tasks. A panic on the
/// calling thread (component called directly) is a violation with signature `panic`.
pub fn run_guarded<C: CheckDef>(case: &C::Case, trace: bool) -> Outcome {
    CURRENT_CASE.with(|c| {
        *c.borrow_mut() = Some((Instant::now(), String::new()));
    });
    WATCH.with(|w| {
        w.cur.0.store(case as *const C::Case as usize as u64, Ordering::Relaxed);
        w.cur.1.store(dump_case_at::<C> as fn(usize, &str) -> String as usize as u64, Ordering::Relaxed);
        w.begin()
    });
    let (r, panics) = catch(|| C::run(case, trace));
    WATCH.with(|w| w.end());
    match r {
        Some(mut o) => {
            if !o.is_violation() {
                if let Some((sig, detail)) = o.soft.iter().find(|(sig, _)| findings().known(current_property(), sig).is_none()).cloned() {
                    o.verdict = Verdict::Violation { signature: sig, detail };
                }
            }
            if !panics.is_empty() && !o.is_violation() {
                // a panic happened inside a spawned task; the check's own oracle decides
                // whether that matters (C10 turns it into a violation itself via
                // `take_panics` before returning). Keep the information.
                o.stats.push(("panics_in_tasks", panics.len() as u64));
            }
            o
        }
        None => {
            // a panic raised inside the crate under test (path /repo/…) is a finding; a panic
            // anywhere else is a defect of the harness and must never count as a violation
            let in_lib = panics.iter().any(|p| p.contains("@ /repo/") || p.contains("[origin:lib]"));
            Outcome::violation(
                if in_lib { "panic" } else { "harness-panic" },
                format!("panic while running case: {}", panics.join(" ; ")),
            )
        }
    }
}

fn shrink<C: CheckDef>(
    mut tree: Box<dyn ValueTree<Value = C::Case>>,
    sig0: &str,
    detail0: &str,
    max_iters: u32,
) -> (C::Case, String, String) {
    // classic proptest shrink loop, keeping only failures with the same signature
    let mut best = tree.current();
    let mut best_out = run_guarded::<C>(&best, false);
    let mut iters = 0;
    let same = |o: &Outcome| match &o.verdict {
        Verdict::Violation { signature, .. } => signature == sig0,
        _ => false,
    };
    if !same(&best_out) {
        if C::SCHEDULE_SAMPLED {
            // the interleaving that failed did not recur: the first observation stands, unshrunk
            return (best, sig0.to_string(), detail0.to_string());
        }
        // flaky?! report as is
        return (best, sig0.to_string(), "non-deterministic failure".into());
    }
    loop {
        if iters >= max_iters || !tree.simplify() {
            break;
        }
        loop {
            iters += 1;
            let cur = tree.current();
            let out = run_guarded::<C>(&cur, false);
            if same(&out) {
                best = cur;
                best_out = out;
                break; // try to simplify further
            } else if iters >= max_iters || !tree.complicate() {
                break;
            }
        }
    }
    let (sig, detail) = match best_out.verdict {
        Verdict::Violation { signature, detail } => (signature, detail),
        _ => unreachable!(),
    };
    (best, sig, detail)
}

fn write_replay<C: CheckDef>(
    id: &str,
    case: &C::Case,
    original: Option<&C::Case>,
    signature: &str,
    detail: &str,
) -> PathBuf {
    let dir = Path::new(VERIF_ROOT).join("replays").join(id);
    let _ = std::fs::create_dir_all(&dir);
    let case_v = serde_json::to_value(case).unwrap();
    let h = fnv64(case_v.to_string().as_bytes()) ^ fnv64(signature.as_bytes());
    let path = dir.join(format!("{}-{:016x}.json", C::NAME, h));
    let v = json!({
        "property": id,
        "check": C::NAME,
        "expect": "violation",
        "signature": signature,
        "detail": detail,
        "case": case_v,
        "unshrunk": original.map(|o| serde_json::to_value(o).unwrap()),
    });
    let _ = std::fs::write(&path, serde_json::to_string_pretty(&v).unwrap());
    path
}

/// Replay one file through sub-check C if its `check` field matches. Returns Some(exit code).
pub fn replay_file<C: CheckDef>(id: &str, v: &Value) -> Option<i32> {
    if v.get("check").and_then(|c| c.as_str()) != Some(C::NAME) {
        return None;
    }
    install_panic_hook();
    set_current_property(Box::leak(id.to_string().into_boxed_str()));
    PANIC_TRACE.store(true, Ordering::Relaxed);
    let case: C::Case = match serde_json::from_value(v["case"].clone()) {
        Ok(c) => c,
        Err(e) => {
            eprintln!("ENGINE-ERROR: cannot decode case: {e}");
            return Some(2);
        }
    };
    println!("replaying {id}/{} …", C::NAME);
    let out = run_guarded::<C>(&case, true);
    println!("labels: {:?} nontrivial={}", out.labels, out.nontrivial);
    for (sig, detail) in &out.soft {
        if let Some(e) = findings().known(id, sig) {
            println!("KNOWN-FINDING: property={id} {sig}: {}\n  {detail}", e.description);
        }
    }
    match out.verdict {
        Verdict::Pass => {
            println!("PASS");
            Some(0)
        }
        Verdict::Discard(w) => {
            println!("DISCARD: {w}");
            Some(0)
        }
        Verdict::Violation { signature, detail } => {
            if let Some(e) = findings().known(id, &signature) {
                println!("KNOWN-FINDING: property={id} {signature}: {}", e.description);
                println!("{detail}");
                return Some(0);
            }
            println!("VIOLATION property={id} replay=<this file>");
            println!("signature: {signature}");
            println!("{detail}");
            Some(1)
        }
    }
}

// ------------------------------------------------------------------------------------------
// watchdog: a case that runs for more than CASE_LIMIT wall seconds, or a check that exceeds
// its global budget, is a machinery problem (exit 2), never a violation.

pub struct Watch {
    slot: Arc<AtomicU64>, // start time in ms since process start, 0 = idle
    /// address of the case being run and of a function that serialises it (read by the watchdog thread only when
    /// the case has hung: the owning thread is stuck inside it, the case is not mutated)
    cur: Arc<(AtomicU64, AtomicU64, AtomicU64)>,
}
static WATCH_SLOTS: Mutex<Vec<Arc<AtomicU64>>> = Mutex::new(Vec::new());
static WATCH_CUR: Mutex<Vec<(Arc<AtomicU64>, Arc<(AtomicU64, AtomicU64, AtomicU64)>)>> = Mutex::new(Vec::new());

fn dump_case_at<C: CheckDef>(addr: usize, id: &str) -> String {
    // SAFETY: `addr` is the address of a live `C::Case` borrowed by the thread that is stuck running it
    let case: &C::Case = unsafe { &*(addr as *const C::Case) };
    let p = write_replay::<C>(id, case, None, "hang", "this case ran longer than the per-case wall limit (machinery problem or endless loop)");
    p.display().to_string()
}
static PROCESS_START: std::sync::OnceLock<Instant> = std::sync::OnceLock::new();

thread_local! {
    static WATCH: Watch = {
        let slot = Arc::new(AtomicU64::new(0));
        WATCH_SLOTS.lock().push(slot.clone());
        let cur = Arc::new((AtomicU64::new(0), AtomicU64::new(0), AtomicU64::new(0)));
        WATCH_CUR.lock().push((slot.clone(), cur.clone()));
        Watch { slot, cur }
    };
}

impl Watch {
    fn begin(&self) {
        let ms = PROCESS_START.get_or_init(Instant::now).elapsed().as_millis() as u64 + 1;
        self.slot.store(ms, Ordering::Relaxed);
    }
    fn end(&self) {
        self.slot.store(0, Ordering::Relaxed);
    }
}

pub fn start_watchdog(id: &'static str, case_limit_s: u64, total_limit_s: u64) {
    PROCESS_START.get_or_init(Instant::now);
    std::thread::spawn(move || {
        loop {
            std::thread::sleep(std::time::Duration::from_millis(500));
            let now = PROCESS_START.get().unwrap().elapsed().as_millis() as u64;
            if now > total_limit_s * 1000 {
                println!("INCONCLUSIVE property={id} (check exceeded its wall budget of {total_limit_s}s)");
                std::process::exit(2);
            }
            for s in WATCH_SLOTS.lock().iter() {
                let st = s.load(Ordering::Relaxed);
                if st != 0 && now.saturating_sub(st) > case_limit_s * 1000 {
                    // save the case that hangs, so that it can be replayed
                    let mut saved = String::new();
                    for (slot, cur) in WATCH_CUR.lock().iter() {
                        if Arc::ptr_eq(slot, s) {
                            let (addr, f) = (cur.0.load(Ordering::Relaxed) as usize, cur.1.load(Ordering::Relaxed) as usize);
                            if addr != 0 && f != 0 {
                                // SAFETY: stored by run_guarded from a real function of this signature
                                let f: fn(usize, &str) -> String = unsafe { std::mem::transmute(f) };
                                saved = f(addr, id);
                            }
                        }
                    }
                    println!("INCONCLUSIVE property={id} (a single case ran longer than {case_limit_s}s wall: hang in harness or library; case saved to {saved})");
                    std::process::exit(2);
                }
            }
        }
    });
}

// ------------------------------------------------------------------------------------------
// small helpers for strategies

/// Monotone index mapping (shrinks towards the first element).
pub fn pick_idx(x: u16, len: usize) -> usize {
    if len == 0 {
        return 0;
    }
    ((x as usize) * len) >> 16
}

pub fn boxed<S: Strategy + 'static>(s: S) -> BoxedStrategy<S::Value> {
    s.boxed()
}

pub type CaseResult = Result<(), TestCaseError>;
pub type ShrinkErr<T> = TestError<T>;

// ------------------------------------------------------------------------------------------
// coverage-guided entry: a fuzz target decodes the fuzzer's bytes into a case of a check and runs the check's own oracle

/// Run one explicit case (targets that decode the fuzzer's bytes themselves).
pub fn fuzz_case<C: CheckDef>(id: &'static str, case: &C::Case) -> i32 {
    install_panic_hook();
    set_current_property(id);
    fuzz_verdict::<C>(id, case, run_guarded::<C>(case, false))
}

fn fuzz_verdict<C: CheckDef>(id: &'static str, case: &C::Case, out: Outcome) -> i32 {
    if let Verdict::Violation { signature, detail } = &out.verdict {
        if signature == "harness-panic" {
            let path = write_replay::<C>(id, case, None, signature, detail);
            eprintln!("ENGINE-ERROR: harness panic (case saved to {}): {detail}", path.display());
            return 2;
        }
        if findings().known(id, signature).is_some() {
            return 0;
        }
        let path = write_replay::<C>(id, case, None, signature, detail);
        println!("VIOLATION property={id} replay={}", path.display());
        println!("  signature: {signature}");
        println!("  {detail}");
        return 1;
    }
    0
}
