#!/bin/bash
# ./sens.sh <seeded-dir-name>...   apply each seeded patch to /repo, run the property's own quick check (and, if it
# stays silent, every other quick check), print one table row per defect, revert. Not a registered check.
cd /verif
ALL="C01 C02 C03 C04 C05 C06 C07 C08 C09 C10 C11 C12 C13 C14 C15 C16 C17 C18 C19"
for d in "$@"; do
  id=${d%%-*}
  [ -n "$(git -C /repo status --porcelain)" ] && { echo "/repo not clean"; exit 2; }
  git -C /repo apply /verif/seeded/$d/patch.diff || { echo "| $d | patch does not apply |"; continue; }
  caught=""
  out=$(VERIF_MAX_SHRINK=50 ./check $id quick 2>&1)
  if echo "$out" | grep -q "^VIOLATION"; then
    caught="$id: $(echo "$out" | grep -m1 "signature:" | sed 's/.*signature: //')"
  else
    for c in $ALL; do
      [ $c = $id ] && continue
      o=$(VERIF_MAX_SHRINK=50 ./check $c quick 2>&1)
      if echo "$o" | grep -q "^VIOLATION"; then caught="$caught${caught:+; }$c: $(echo "$o" | grep -m1 "signature:" | sed 's/.*signature: //')"; fi
    done
    [ -z "$caught" ] && caught="**not caught by any quick check**" || caught="(own check silent) $caught"
  fi
  git -C /repo checkout -- .
  echo "| $d | $(python3 -c "import json;print(json.load(open('seeded/$d/meta.json'))['summary'][:160].replace('|','/').replace(chr(10),' '))") | $caught |"
done
