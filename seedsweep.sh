#!/bin/bash
# ./seedsweep.sh <first> <last> [IDs...]  — run quick checks for a range of VERIF_SEEDs, print every non-OK outcome
cd /verif
a=$1; b=$2; shift 2
ids="${*:-C01 C02 C03 C04 C05 C06 C07 C08 C09 C10 C11 C12 C13 C14 C15 C16 C17 C18 C19}"
for s in $(seq $a $b); do
  for c in $ids; do
    out=$(VERIF_SEED=$s ./check $c quick 2>&1); rc=$?
    if [ $rc -ne 0 ] || echo "$out" | grep -q "^VIOLATION\|ENGINE"; then
      echo "### seed=$s $c rc=$rc"; echo "$out" | grep -v "^KNOWN" | tail -6 | cut -c1-400
    fi
  done
  echo "seed $s done $(date +%H:%M:%S)"
done
