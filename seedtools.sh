#!/bin/bash
# helper for seeded-defect experiments (not a registered check)
# usage: seedtools.sh confirm <ID>     -- re-verify a sub-agent's deliverable in its worktree /tmp/wt/<ID>
#        seedtools.sh try <ID> <patch> <CHECK>... -- apply patch to /repo, run ./check <CHECK> quick for each, revert
set -u
cmd=$1; id=$2
case $cmd in
confirm|confirm2|confirm3|confirm4)
  wt=/tmp/wt/$id; out=/tmp/wt/$id-out; tgt=/tmp/wt/$id-target
  [ $cmd = confirm2 ] && out=/tmp/wt/$id-out2
  [ $cmd = confirm3 ] && out=/tmp/wt/$id-out3
  [ $cmd = confirm4 ] && out=/tmp/wt/$id-out4
  cd $wt || exit 2
  demo=$(python3 -c "import json;print(json.load(open('$out/meta.json'))['demo_cmd'])")
  {
  echo "== state: $(git status --short | tr '\n' ' ')"
  echo "== full suite with change+demo (expect only demo failing)"
  CARGO_NET_OFFLINE=true CARGO_TARGET_DIR=$tgt cargo test --workspace --no-fail-fast --offline 2>&1 | grep -E "^test result|^test .*FAILED|failed" | head -12
  echo "== demo without the change (expect pass)"
  git apply -R $out/patch.diff && ( eval "$demo" 2>&1 | grep -E "^test result|^test .*(ok|FAILED)" | head -8 ); git apply $out/patch.diff
  echo "== demo with the change (expect fail)"
  ( eval "$demo" 2>&1 | grep -E "^test result|^test .*(ok|FAILED)" | head -8 )
  } > $out/confirm.txt 2>&1
  cat $out/confirm.txt
  ;;
try)
  patch=$3; shift 3
  cd /repo || exit 2
  if [ -n "$(git status --porcelain)" ]; then echo "/repo not clean"; exit 2; fi
  git apply $patch || { echo "patch does not apply"; exit 2; }
  for c in "$@"; do
    echo "== $c"
    ( cd /verif && VERIF_MAX_SHRINK=${VERIF_MAX_SHRINK:-200} ./check $c quick 2>&1 | grep -E "^OK|^VIOLATION|signature:|^KNOWN|ENGINE|BUILD" | head -8 | cut -c1-260 )
  done
  git -C /repo checkout -- .
  ;;
esac
