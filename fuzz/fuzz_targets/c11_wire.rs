#![no_main]
//! libFuzzer target: raw datagram bytes against the crate's parser and the independent BEP-29 reference parser.
use libfuzzer_sys::fuzz_target;

fuzz_target!(|data: &[u8]| {
    let case = utpverif::props::c11::RawCase { bytes: data.to_vec() };
    let rc = utpverif::engine::fuzz_case::<utpverif::props::c11::Raw>("C11", &case);
    if rc != 0 {
        std::process::abort();
    }
});
