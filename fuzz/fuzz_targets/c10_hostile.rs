#![no_main]
//! libFuzzer target: the fuzzer's bytes are decoded into a C10 case (socket configuration, bystander, a sequence of
//! hostile / application / clock steps, a few bytes each) and judged by the C10 oracle.
use libfuzzer_sys::fuzz_target;

fuzz_target!(|data: &[u8]| {
    if data.len() < 16 {
        return;
    }
    let case = utpverif::props::c10::decode(data);
    let rc = utpverif::engine::fuzz_case::<utpverif::props::c10::Hostile>("C10", &case);
    if rc != 0 {
        // violation (1) or machinery problem (2): stop with the input saved as an artifact
        std::process::abort();
    }
});
