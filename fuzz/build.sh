#!/bin/bash
# builds the libFuzzer targets against /repo's working tree (offline; nightly toolchain; no sanitizer: the crate has
# no unsafe code of its own, the oracles are semantic)
set -eu
cd "$(dirname "$0")"
export CARGO_NET_OFFLINE=true
export RUSTFLAGS="--cfg librqbit_utp_verif --cfg tokio_unstable"
cp ../harness/Cargo.lock Cargo.lock 2>/dev/null || true
cargo +nightly fuzz build --fuzz-dir "$(pwd)" -s none
