#!/bin/bash
# ./run.sh <target> <property> <seconds> <seed>
# coverage-guided campaign: starts from the committed seed corpus, works in corpus-tmp/ (not committed),
# stops at the first violation. exit 0 = nothing found, 1 = violation (line printed by the target), 2 = machinery.
set -u
cd "$(dirname "$0")"
target=$1; prop=$2; secs=$3; seed=${4:-1}
bin=target/x86_64-unknown-linux-gnu/release/$target
# always (incrementally) rebuild: the targets must reflect /repo's current working tree
./build.sh >corpus-tmp.build.log 2>&1 || { echo "FUZZ-BUILD-FAILED $target"; tail -20 corpus-tmp.build.log; exit 2; }
rm -f corpus-tmp.build.log
[ -x "$bin" ] || { echo "FUZZ-BUILD-FAILED $target"; exit 2; }
work=corpus-tmp/$target; rm -rf "$work"; mkdir -p "$work" artifacts
[ -d corpus/$target ] && cp corpus/$target/* "$work"/ 2>/dev/null
[ "$seed" = "0" ] && seed=1
log=corpus-tmp/$target.log
jobs=$(nproc); [ "$jobs" -gt 16 ] && jobs=16
"$bin" "$work" -max_len=2048 -len_control=0 -timeout=60 -rss_limit_mb=4096 -seed="$seed" -max_total_time="$secs" \
   -fork="$jobs" -ignore_crashes=0 -ignore_timeouts=1 -ignore_ooms=1 -print_final_stats=1 -artifact_prefix="$(pwd)/artifacts/" >"$log" 2>&1
rc=$?
execs=$(grep -Eo "^#[0-9]+: cov" "$log" | tail -1 | grep -Eo "[0-9]+" | head -1)
[ -z "$execs" ] && execs=$(grep -Eo "stat::number_of_executed_units: [0-9]+" "$log" | grep -Eo "[0-9]+" | tail -1)
cov=$(grep -Eo "cov: [0-9]+" "$log" | tail -1 | grep -Eo "[0-9]+")
corp=$(ls "$work" | wc -l)
echo "FUZZ target=$target execs=${execs:-0} cov=${cov:-0} corpus=$corp seconds=$secs seed=$seed rc=$rc"
if grep -q "^VIOLATION property=" "$log"; then
  grep -A2 "^VIOLATION property=" "$log" | head -6
  art=$(ls -t artifacts/crash-* 2>/dev/null | head -1)
  [ -n "$art" ] && echo "  fuzz input saved as $(pwd)/$art (replay: harness/target/release/utpverif fuzzin $prop <file>)"
  exit 1
fi
if grep -q "ENGINE-ERROR" "$log"; then grep "ENGINE-ERROR" "$log" | head -3; exit 2; fi
if [ $rc -ne 0 ] && grep -q "ERROR: libFuzzer" "$log"; then
  # a crash that is not a violation line: a panic escaping the oracle or a libFuzzer-level problem
  grep -E "ERROR: libFuzzer|panicked|SUMMARY" "$log" | head -5
  exit 2
fi
exit 0
