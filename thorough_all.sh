#!/bin/bash
# runs every thorough tier once, sequentially (about 1.5 h on 16 cores); prints one block per check
cd /verif
for c in ${*:-C01 C02 C03 C04 C05 C06 C07 C08 C09 C10 C11 C12 C13 C14 C15 C16 C17 C18 C19}; do
  s=$(date +%s); out=$(./check $c thorough 2>&1); rc=$?
  echo "== $c rc=$rc $(( $(date +%s)-s ))s $(date +%H:%M)"; echo "$out" | grep -v "^KNOWN" | tail -4 | cut -c1-400
done
